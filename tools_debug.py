"""Run a replay file in-process (debug helper): tools_debug.py <prop> <file> [impl]"""
import importlib, json, os, sys
sys.path.insert(0, os.path.dirname(os.path.abspath(__file__)))
rec = json.load(open(sys.argv[2]))
cfg = rec.get('config') or {}
for k, v in (cfg.get('env') or {}).items():
    os.environ[k] = str(v)
from vlib import boot, build
boot.activate(build.ensure(), sys.argv[3] if len(sys.argv) > 3 else cfg.get('impl', 'c'))
from vlib import core
mod = importlib.import_module('checks.' + sys.argv[1].lower())
out = core.Out()
mod.run_case(rec['case'], cfg, out)
print('fails:', out.fails)
print('tags:', out.tags[:40], 'nontrivial', out.nontrivial)
