"""C08 All lookup entry points agree with lookup() and subscriptions()."""
from hypothesis import strategies as st

from vlib import reguniv
from vlib.callform import Form
from vlib.reguniv import IDX
from vlib.reguniv import NAMES
from vlib.reguniv import Universe
from vlib.reguniv import Val

RULE = ('generated registry states (adapters and subscriptions, chains of '
        '1-2 registries of either flavour), probes = (registry, object tuple '
        '[plain instance, directly-providing instance, super proxy], '
        'provided, name) each preceded by a warm-up list of 0-6 calls through '
        'arbitrary entry points on the same or other keys (cold / warm by the '
        'same / another entry point / cached miss); oracle = metamorphic '
        'identities against lookup() and subscriptions() on the same live '
        'registry, defaults by identity, ValueError for non-string names '
        '(None, 3, b"", 0, (), False) cold and warm; non-trivial = probe with '
        '>=2 names or >=2 applicable registrations and a non-empty warm-up; '
        'distinct by SHA-1')

BAD_NAMES = [None, 3, b'', 0, (), False, b'a']
ENTRY = ['lookup', 'lookup1', 'lookupAll', 'names', 'subscriptions',
         'queryAdapter', 'adapter_hook', 'queryMultiAdapter', 'subscribers',
         'lookup_default', 'lookup1_default']


# thorough tier: coverage-guided campaigns on top of the random ones
ATHERIS = [{'impl': 'py', 'n': 6000, 'name': 'py-atheris'},
           {'impl': 'c', 'n': 6000, 'name': 'c-atheris'}]


def configs(tier, seed):
    n = 1000 if tier == 'quick' else 20000
    return [{'name': impl + '-entry', 'impl': impl, 'mode': 'hyp', 'n': n}
            for impl in ('c', 'py')]


def objref():
    return st.one_of(
        st.tuples(st.just('o'), IDX).map(list),
        st.tuples(st.just('o'), IDX).map(list),
        st.tuples(st.just('s'), IDX, st.integers(0, 3)).map(list),
        st.just(['x']))


@st.composite
def key_strategy(draw):
    arity = draw(st.sampled_from([0, 1, 1, 1, 1, 2, 2, 3]))
    return [draw(IDX), [draw(objref()) for _ in range(arity)], draw(IDX),
            draw(st.sampled_from(NAMES + ['']))]


@st.composite
def case_strategy(draw):
    bp = draw(reguniv.blueprint(max_regs=2, max_insts=3, max_classes=3))
    if not bp['classes']:
        bp['classes'] = [{'bases': [], 'implements': [0], 'only': False}]
    if not bp['insts']:
        bp['insts'] = [{'cls': 0, 'direct': []}]
    regs = []
    for k in range(draw(st.integers(1, 12))):
        if k and draw(st.booleans()):
            regs.append(['rel', draw(IDX), draw(IDX), draw(IDX),
                         draw(st.integers(0, 40)), draw(st.integers(0, 40)),
                         draw(st.booleans()), draw(st.booleans())])
        else:
            regs.append(['new', draw(IDX), draw(reguniv.reg_key_biased()),
                         draw(IDX), draw(st.sampled_from(NAMES + [''])),
                         draw(st.booleans())])
    # the 5th element: subscribe the factory of an earlier subscription
    # again (the same object, under the same or another key or registry) -
    # subscribers() calls it once per listing (seed C08f); 6th: keep that
    # subscription's key
    subs = [[draw(IDX), draw(reguniv.reg_key_biased()),
             draw(st.one_of(st.none(), IDX, IDX)), draw(st.booleans()),
             draw(st.one_of(st.none(), st.none(), IDX)),
             draw(st.sampled_from(['key', 'req', 'other']))]
            for _ in range(draw(st.integers(0, 6)))]
    probes = []
    for _ in range(draw(st.integers(1, 5))):
        key = draw(key_strategy())
        warm = []
        for _w in range(draw(st.integers(0, 6))):
            same = draw(st.booleans())
            warm.append([draw(st.sampled_from(ENTRY)),
                         None if same else draw(key_strategy()),
                         draw(st.sampled_from([None, None, None, 0, 1, 2]))])
        probes.append([key, warm,
                       draw(st.integers(0, 40)) if draw(st.integers(0, 9)) < 8
                       else None])
    # how the entry points are called: 9 = all arguments positional,
    # k < 9 = the first k positional and the rest by keyword
    forms = [draw(st.sampled_from([9, 9, 9, 0, 1, 2])) for _ in probes]
    return {'bp': bp, 'regs': regs, 'subs': subs, 'probes': probes,
            'forms': forms}


def strategy(cfg):
    return case_strategy()


class Factory(Val):
    __slots__ = ('returns_none', 'calls')

    def __init__(self, label, returns_none):
        Val.__init__(self, label)
        self.returns_none = returns_none
        self.calls = []

    def __call__(self, *objs):
        self.calls.append(objs)
        if self.returns_none:
            return None
        return ('made', self.label) + tuple(id(o) for o in objs)


def run_case(case, cfg, out):
    from zope.interface import providedBy
    U = Universe(case['bp'])
    out.adjusted += U.adjusted
    M = U.model
    made = []
    label = [0]

    def newfactory(rn):
        label[0] += 1
        return Factory(label[0], rn)

    for regop in case['regs']:
        if regop[0] == 'rel' and made:
            _, r, which, pos, pick, ppick, keepprov, rn = regop
            r0, req0, prov0, name = made[which % len(made)]
            r = r % len(U.regs) if pick % 3 == 0 else r0
            req = list(req0)
            if req:
                pos = pos % len(req)
                pool = ([s for s in req[pos].__sro__ if s in U.ifaces or
                         s is req[pos]] if req[pos] is not None else
                        U.all_lookup_specs()) + [None]
                req[pos] = pool[pick % len(pool)]
            if pick % 3 == 1:
                name = NAMES[(NAMES.index(name) + 1) % len(NAMES)]
            prov = prov0 if keepprov else U.provs[ppick % len(U.provs)]
        elif regop[0] == 'new':
            _, r, reqrefs, p, name, rn = regop
            r = r % len(U.regs)
            req = [U.spec(ref) for ref in reqrefs]
            prov = U.prov(p)
        else:
            continue
        v = newfactory(rn)
        U.regs[r].register(req, prov, name, v)
        M.register(r, req, prov, name, v)
        made.append((r, req, prov, name))
    submade = []
    for sub in case['subs']:
        r, reqrefs, p, rn = sub[:4]
        again, keep = (sub[4], sub[5]) if len(sub) > 4 else (None, 'other')
        r = r % len(U.regs)
        req = [U.spec(ref) for ref in reqrefs]
        prov = None if p is None else U.prov(p)
        v = newfactory(rn)
        if again is not None and submade:
            r0, req0, prov0, v = submade[again % len(submade)]
            if keep == 'key':
                req, prov = req0, prov0
            elif keep == 'req':
                req = req0
            out.tag('factory_subscribed_again')
        U.regs[r].subscribe(req, prov, v)
        M.subscribe(r, req, prov, v)
        submade.append((r, req, prov, v))

    def resolve_obj(ref):
        if ref[0] == 'x':
            return object()
        ob = U.insts[ref[1] % len(U.insts)]
        if ref[0] == 's':
            mro = type(ob).__mro__[:-1]
            return super(mro[ref[2] % len(mro)], ob)
        return ob

    def unwrap(o):
        return o.__self__ if isinstance(o, super) else o

    def resolve_key(key, derive=None):
        r, objrefs, p, name = key
        r = r % len(U.regs)
        objs = [resolve_obj(x) for x in objrefs]
        prov = U.prov(p)
        if derive is not None and made:
            # aim at an existing registration: same arity, provided and name
            r0, req0, prov0, name0 = made[derive % len(made)]
            below = [x for x in range(len(U.regs)) if r0 in M.ro(x)]
            r = below[r % len(below)]
            objs = objs[:len(req0)]
            while len(objs) < len(req0):
                objs.append(U.insts[(derive + len(objs)) % len(U.insts)])
            prov = U.prov_ancestors(prov0)[derive % len(
                U.prov_ancestors(prov0))]
            name = name0
        return r, objs, prov, name

    D = object()

    cur_form = [9]

    def call_entry(entry, r, objs, prov, name, bad):
        reg = Form(U.regs[r], cur_form[0])
        specs = [providedBy(o) for o in objs]
        nm = name if bad is None else BAD_NAMES[bad]
        try:
            if entry == 'lookup':
                reg.lookup(specs, prov, nm)
            elif entry == 'lookup_default':
                reg.lookup(specs, prov, nm, D)
            elif entry == 'lookup1' and specs:
                reg.lookup1(specs[0], prov, nm)
            elif entry == 'lookup1_default' and specs:
                reg.lookup1(specs[0], prov, nm, D)
            elif entry == 'lookupAll':
                reg.lookupAll(specs, prov)
            elif entry == 'names':
                reg.names(specs, prov)
            elif entry == 'subscriptions':
                reg.subscriptions(specs, prov)
            elif entry == 'queryAdapter' and objs:
                reg.queryAdapter(objs[0], prov, nm, D)
            elif entry == 'adapter_hook' and objs:
                reg.adapter_hook(prov, objs[0], nm, D)
            elif entry == 'queryMultiAdapter':
                reg.queryMultiAdapter(objs, prov, nm, D)
            elif entry == 'subscribers':
                reg.subscribers(objs, prov)
        except ValueError:
            if bad is None:
                raise

    def expect_valueerror(fn, what):
        try:
            r = fn()
        except ValueError:
            return True
        except Exception as e:  # noqa
            out.fail('badname-other-exception', '%s raised %r' % (what, e))
            return False
        out.fail('badname-accepted', '%s returned %r instead of raising '
                 'ValueError' % (what, r))
        return False

    def bad_names(reg, specs, objs, prov, stage):
        for bn in BAD_NAMES:
            w = '%s: name %r' % (stage, bn)
            if not expect_valueerror(lambda: reg.lookup(specs, prov, bn, D),
                                     w + ' lookup'):
                return False
            if not expect_valueerror(
                    lambda: reg.queryMultiAdapter(objs, prov, bn, D),
                    w + ' queryMultiAdapter'):
                return False
            if len(specs) == 1:
                if not expect_valueerror(
                        lambda: reg.lookup1(specs[0], prov, bn, D),
                        w + ' lookup1'):
                    return False
                if not expect_valueerror(
                        lambda: reg.queryAdapter(objs[0], prov, bn, D),
                        w + ' queryAdapter'):
                    return False
                if not expect_valueerror(
                        lambda: reg.adapter_hook(prov, objs[0], bn, D),
                        w + ' adapter_hook'):
                    return False
        return True

    for pi, (key, warm, derive) in enumerate(case['probes']):
        r, objs, prov, name = resolve_key(key, derive)
        forms = case.get('forms') or [9]
        cur_form[0] = forms[pi % len(forms)]
        reg = Form(U.regs[r], cur_form[0])
        out.tag('form_positional' if cur_form[0] >= 9 else 'form_keyword')
        specs = [providedBy(o) for o in objs]
        stage = 'probe %d (registry %d %s, %d objects, %s, %r, call form ' \
            '%d)' % (pi, r, U.flavours[r], len(objs), prov.__name__, name,
                     cur_form[0])
        if pi % 2 == 0:
            if not bad_names(reg, specs, objs, prov, stage + ' cold'):
                return
        for entry, wkey, bad in warm:
            if wkey is None:
                call_entry(entry, r, objs, prov, name, bad)
            else:
                wr, wobjs, wprov, wname = resolve_key(wkey)
                call_entry(entry, wr, wobjs, wprov, wname, bad)
        out.checks += 1
        L = reg.lookup(specs, prov, name, D)
        app = M.applicable(r, specs, prov, name)
        all_ = reg.lookupAll(specs, prov)
        if not all(isinstance(x, tuple) and len(x) == 2 and
                   isinstance(x[1], Factory) for x in all_):
            out.fail('lookupAll-foreign', '%s: lookupAll() returned %r' % (
                stage, all_))
            return
        if L is not D and not isinstance(L, Factory):
            out.fail('lookup-foreign', '%s: lookup() returned %r' % (stage, L))
            return
        d = dict(all_)
        if (len(d) >= 2 or len(app) >= 2) and warm:
            out.nontrivial = True
        out.tag('warm_%d' % min(len(warm), 3))
        if len(specs) == 1:
            g = reg.lookup1(specs[0], prov, name, D)
            if g is not L:
                out.fail('lookup1', '%s: lookup1 -> %r, lookup -> %r' % (
                    stage, g, L))
                return
            if L is D and reg.lookup1(specs[0], prov, name) is not None:
                out.fail('lookup1-default', '%s: lookup1 without default'
                         % stage)
                return
        if len(d) != len(all_):
            out.fail('lookupAll-duplicates', '%s: %r' % (stage, all_))
            return
        if list(reg.names(specs, prov)) != [k for k, _ in all_]:
            out.fail('names', '%s: names %r, lookupAll %r' % (
                stage, reg.names(specs, prov), all_))
            return
        for n in set(NAMES) | set(d):
            g = reg.lookup(specs, prov, n, D)
            if n in d:
                if g is not d[n]:
                    out.fail('lookupAll-vs-lookup', '%s: lookupAll[%r] is %r '
                             'but lookup gives %r' % (stage, n, d[n], g))
                    return
            elif g is not D:
                out.fail('lookupAll-missing-name', '%s: lookup(%r) = %r but '
                         'lookupAll has no such name (%r)' % (stage, n, g,
                                                               sorted(d)))
                return
        # object entry points
        raw = [unwrap(o) for o in objs]

        def expected_adapt():
            if L is D:
                return D
            if L.returns_none:
                return D
            return ('made', L.label) + tuple(id(o) for o in raw)

        want = expected_adapt()
        checks = [('queryMultiAdapter',
                   lambda: reg.queryMultiAdapter(objs, prov, name, D))]
        if len(objs) == 1:
            checks.append(('queryAdapter',
                           lambda: reg.queryAdapter(objs[0], prov, name, D)))
            checks.append(('adapter_hook',
                           lambda: reg.adapter_hook(prov, objs[0], name, D)))
        for ename, fn in checks:
            if L is not D:
                del L.calls[:]
            g = fn()
            ok = (g is D) if want is D else (g == want)
            if not ok:
                out.fail(ename, '%s: %s -> %r, expected %r (factory %r)' % (
                    stage, ename, g, 'default' if want is D else want, L))
                return
            if L is not D:
                if len(L.calls) != 1 or any(a is not b for a, b in
                                            zip(L.calls[0], raw)):
                    out.fail(ename + '-call', '%s: factory called with %r' % (
                        stage, L.calls))
                    return
        if L is D and len(objs) == 1:
            if reg.queryAdapter(objs[0], prov, name) is not None:
                out.fail('queryAdapter-default', stage)
                return
        # subscribers
        for sprov in (prov, None):
            subs = list(reg.subscriptions(specs, sprov))
            if not all(isinstance(s, Factory) for s in subs):
                out.fail('subscriptions-foreign', '%s: subscriptions() '
                         'returned %r, which are not subscribed values' % (
                             stage, subs))
                return
            for s in subs:
                del s.calls[:]
            res = reg.subscribers(objs, sprov)
            # subscribers pass the objects as given
            wantres = [('made', s.label) + tuple(id(o) for o in objs)
                       for s in subs if not s.returns_none]
            if sprov is None:
                if len(res) != 0:
                    out.fail('subscribers-handlers', '%s: %r' % (stage, res))
                    return
            elif list(res) != wantres:
                out.fail('subscribers', '%s: subscribers -> %r, calling '
                         'subscriptions gives %r' % (stage, res, wantres))
                return
            for s in set(subs):
                if len(s.calls) != sum(1 for x in subs if x is s):
                    out.fail('subscribers-calls', '%s: %r called %d times' % (
                        stage, s, len(s.calls)))
                    return
        if not bad_names(reg, specs, objs, prov, stage + ' warm'):
            return
