"""C19 super() proxies see only the remainder of the MRO."""
from hypothesis import strategies as st

from checks.c01 import Model
from vlib.core import make_class
from vlib.core import uniq
from vlib.regmodel import RegModel

RULE = ('interface DAG (2-6), class DAGs of 2-6 classes (diamonds, mixins '
        'without declarations, *only* classes), instances with direct '
        'declarations, a registry with adapters for the interfaces; histories '
        'of classImplements / classImplementsOnly / classImplementsFirst / '
        'directlyProvides interleaved with queries through super(C, ob) for '
        '(C, ob) pairs along the MRO (providedBy, implementedBy, '
        'I.providedBy, queryAdapter, adapter_hook, queryMultiAdapter); every '
        'pair queried so far is re-checked after every later declaration '
        'change; oracle = union of the declaration model over the classes '
        'after C in the MRO (band), registry model on that specification, '
        'factory receives the underlying object; non-trivial = a pair whose '
        'proxy set differs from providedBy(ob) and a declaration changed on a '
        'class after C in the MRO after the first proxy query; distinct by '
        'SHA-1')

IDX = st.sampled_from([0, 0, 0, 1, 1, 1, 2, 2, 3, 4, 5, 7, 11])


# thorough tier: coverage-guided campaigns on top of the random ones
ATHERIS = [{'impl': 'py', 'n': 6000, 'name': 'py-atheris'},
           {'impl': 'c', 'n': 6000, 'name': 'c-atheris'}]


def configs(tier, seed):
    n = 2000 if tier == 'quick' else 25000
    return [{'name': impl + '-super', 'impl': impl, 'mode': 'hyp', 'n': n}
            for impl in ('c', 'py')]


@st.composite
def case_strategy(draw):
    nI = draw(st.integers(2, 6))
    ibases = []
    for i in range(nI):
        k = min(draw(st.integers(0, 2)), i)
        ibases.append(draw(st.lists(st.integers(0, i - 1), min_size=k,
                                    max_size=k, unique=True)) if k else [])
    nC = draw(st.integers(2, 6))
    classes = []
    for c in range(nC):
        k = min(draw(st.sampled_from([0, 1, 1, 2, 2, 3])), c)
        classes.append({
            'bases': draw(st.lists(st.integers(0, c - 1), min_size=k,
                                   max_size=k, unique=True)) if k else [],
            'decl': draw(st.sampled_from([None, None, 'impl', 'impl',
                                          'only'])),
            'ifaces': draw(st.lists(st.integers(0, nI - 1), max_size=2))})
    # 'factory': the instance is itself declared as a factory
    # (implementer(I)(ob) on a callable instance stores a specification in
    # the instance's own __dict__): that says what calling it yields, not
    # what it or a super proxy of it provides (seed C19g)
    insts = [{'cls': draw(IDX), 'direct': draw(st.lists(
        st.integers(0, nI - 1), max_size=2)),
        'factory': draw(st.one_of(st.none(), st.none(), st.lists(
            st.integers(0, nI - 1), max_size=2)))}
        for _ in range(draw(st.integers(1, 3)))]
    regs = [[draw(st.one_of(st.none(), st.integers(0, nI - 1))),
             draw(st.sampled_from(['', '', 'n'])), draw(st.booleans())]
            for _ in range(draw(st.integers(0, 6)))]
    ops = []
    for _ in range(draw(st.integers(4, 25))):
        k = draw(st.sampled_from(['query'] * 5 + ['adapt'] * 3 +
                                 ['cimpl'] * 4 + ['conly'] * 2 + ['cfirst'] +
                                 ['dprov'] * 2 + ['checkall']))
        if k in ('query', 'adapt'):
            ops.append([k, draw(IDX), draw(st.integers(0, 6)),
                        draw(st.sampled_from(['', '', 'n']))])
        elif k in ('cimpl', 'conly'):
            ops.append([k, draw(IDX), draw(st.lists(st.integers(0, nI - 1),
                                                    min_size=1, max_size=2))])
        elif k == 'cfirst':
            ops.append([k, draw(IDX), draw(st.integers(0, nI - 1))])
        elif k == 'dprov':
            ops.append([k, draw(IDX), draw(st.lists(st.integers(0, nI - 1),
                                                    max_size=2))])
        else:
            ops.append([k])
    return {'ibases': ibases, 'classes': classes, 'insts': insts,
            'regs': regs, 'flavour': draw(st.sampled_from(['plain',
                                                           'verifying'])),
            'ops': ops}


def strategy(cfg):
    return case_strategy()


def run_case(case, cfg, out):
    from zope.interface import Interface
    from zope.interface import classImplements
    from zope.interface import classImplementsFirst
    from zope.interface import classImplementsOnly
    from zope.interface import directlyProvides
    from zope.interface import implementedBy
    from zope.interface import providedBy
    from zope.interface.adapter import AdapterRegistry
    from zope.interface.adapter import VerifyingAdapterRegistry
    from zope.interface.interface import InterfaceClass

    ibases = case['ibases']
    nI = len(ibases)
    tag = uniq('c19_')
    ifaces = []
    for i, bs in enumerate(ibases):
        ifaces.append(InterfaceClass(
            '%s_%d' % (tag, i), tuple(ifaces[b] for b in bs) or (Interface,),
            {}, __module__='verif.c19'))
    iidx = {id(x): i for i, x in enumerate(ifaces)}
    prov = InterfaceClass(tag + '_P', (Interface,), {},
                          __module__='verif.c19')
    M = Model(ibases)
    classes = []

    def declare(c, atoms, how):
        cl = M.classes[c]
        if how == 'only':
            cl['inherit'] = False
            cl['must'] = set(atoms)
            cl['may'] = set(atoms)
            return
        add_must, add_may = set(), set()
        for a in atoms:
            if not M.implied_by_class(c, a, 'may'):
                add_must.add(a)
            add_may.add(a)
        cl['must'] |= add_must
        cl['may'] |= add_may

    for c, spec in enumerate(case['classes']):
        cls, kept = make_class('K%d' % c, [classes[b] for b in spec['bases']],
                               {'__call__': lambda self: None})
        if kept != len(spec['bases']):
            out.adjusted += 1
        classes.append(cls)
        M.classes.append({'bases': spec['bases'][:kept], 'must': set(),
                          'may': set(), 'inherit': True, 'cp_must': set(),
                          'cp_may': set()})
        atoms = [('i', i) for i in spec['ifaces']]
        if spec['decl'] == 'impl' and atoms:
            classImplements(cls, *[ifaces[i] for i in spec['ifaces']])
            declare(c, atoms, 'add')
        elif spec['decl'] == 'only':
            classImplementsOnly(cls, *[ifaces[i] for i in spec['ifaces']])
            declare(c, atoms, 'only')
    insts = []
    for spec in case['insts']:
        c = len(classes) - 1 - (spec['cls'] % len(classes))
        ob = classes[c]()
        if spec['direct']:
            directlyProvides(ob, *[ifaces[i] for i in spec['direct']])
        if spec.get('factory') is not None:
            from zope.interface import implementer
            implementer(*[ifaces[i] for i in spec['factory']])(ob)
            out.tag('instance_declared_as_factory')
        insts.append((ob, c))
    cidx = {cls: c for c, cls in enumerate(classes)}

    reg = (AdapterRegistry if case['flavour'] == 'plain'
           else VerifyingAdapterRegistry)()
    RM = RegModel(lambda s: s.__sro__, lambda p, q: p.isOrExtends(q),
                  Interface)
    RM.add_registry(0, [])

    class Factory:
        def __init__(self, label, rn):
            self.label, self.rn = label, rn

        def __call__(self, *objs):
            if self.rn:
                return None
            return ('made', self.label) + tuple(id(o) for o in objs)

        def __repr__(self):
            return 'F%d' % self.label

    for k, (req, name, rn) in enumerate(case['regs']):
        r = None if req is None else ifaces[req]
        f = Factory(k, rn)
        reg.register([r], prov, name, f)
        RM.register(0, [r], prov, name, f)

    queried = []          # (inst index, thisclass index)
    first_query_step = {}
    changed_after = set()

    def tail_of(k, c):
        mro = type(insts[k][0]).__mro__
        return [cidx[x] for x in mro[mro.index(classes[c]) + 1:]
                if x in cidx]

    def check_pair(k, c, stage, name=''):
        ob = insts[k][0]
        sup = super(classes[c], ob)
        tail = tail_of(k, c)
        must, may = set(), set()
        for t in tail:
            must |= M.class_impl(t, 'must')
            may |= M.class_impl(t, 'may')
        out.checks += 1
        spec = providedBy(sup)
        got = {iidx.get(id(x), -1) for x in spec.flattened()
               if x is not Interface}
        if not (must <= got <= may):
            out.fail('super-providedBy',
                     '%s: providedBy(super(K%d, instance of K%d)) reports %r; '
                     'the classes after K%d in the MRO %r implement at least '
                     '%r and at most %r' % (stage, c, insts[k][1], sorted(got),
                                            c, tail, sorted(must),
                                            sorted(may)))
            return False
        got2 = {iidx.get(id(x), -1) for x in implementedBy(sup).flattened()
                if x is not Interface}
        if got2 != got:
            out.fail('super-implementedBy', '%s: implementedBy(super) %r != '
                     'providedBy(super) %r' % (stage, sorted(got2),
                                               sorted(got)))
            return False
        for i in range(nI):
            if bool(ifaces[i].providedBy(sup)) != (i in got):
                out.fail('super-iface-providedBy', '%s: I%d.providedBy(super) '
                         'is %r' % (stage, i, ifaces[i].providedBy(sup)))
                return False
        full = {iidx.get(id(x), -1) for x in providedBy(ob).flattened()
                if x is not Interface}
        if full != got and (k, c) in changed_after:
            out.nontrivial = True
        # adaptation through the registry
        D = object()
        adm = RM.admissible(0, [spec], prov, name)
        L = reg.lookup([spec], prov, name, D)
        if (L is D) != (not adm) or (adm and not any(L is a for a in adm)):
            out.fail('super-lookup', '%s: lookup on the proxy specification '
                     '-> %r, admissible %r' % (stage, L, adm))
            return False
        if L is D or L.rn:
            want = D
        else:
            want = ('made', L.label, id(ob))
        for ename, fn in (
                ('queryAdapter', lambda: reg.queryAdapter(sup, prov, name, D)),
                ('adapter_hook', lambda: reg.adapter_hook(prov, sup, name, D)),
                ('queryMultiAdapter',
                 lambda: reg.queryMultiAdapter((sup,), prov, name, D))):
            g = fn()
            if (g is not want) and g != want:
                out.fail('super-' + ename, '%s: %s(super(K%d, ob)) -> %r, '
                         'expected %r (factory %r must get the underlying '
                         'object)' % (stage, ename, c, g,
                                      'default' if want is D else want, L))
                return False
        return True

    def recheck(stage):
        for k, c in queried:
            if not check_pair(k, c, stage):
                return False
        return True

    for n, op in enumerate(case['ops']):
        kind = op[0]
        if kind in ('query', 'adapt'):
            k = op[1] % len(insts)
            mro = [x for x in type(insts[k][0]).__mro__ if x in cidx]
            c = cidx[mro[op[2] % len(mro)]]
            if (k, c) not in queried:
                queried.append((k, c))
            if not check_pair(k, c, 'op %d' % n, op[3]):
                return
            out.tag('proxy_depth_%d' % min(op[2] % len(mro), 3))
        elif kind in ('cimpl', 'conly', 'cfirst'):
            c = op[1] % len(classes)
            if kind == 'cfirst':
                classImplementsFirst(classes[c], ifaces[op[2]])
                declare(c, [('i', op[2])], 'add')
            elif kind == 'cimpl':
                classImplements(classes[c], *[ifaces[i] for i in op[2]])
                declare(c, [('i', i) for i in op[2]], 'add')
            else:
                classImplementsOnly(classes[c], *[ifaces[i] for i in op[2]])
                declare(c, [('i', i) for i in op[2]], 'only')
            for (k, qc) in queried:
                if c in tail_of(k, qc):
                    changed_after.add((k, qc))
            out.tag(kind)
            if not recheck('after op %d %r' % (n, op)):
                return
        elif kind == 'dprov':
            k = op[1] % len(insts)
            directlyProvides(insts[k][0], *[ifaces[i] for i in op[2]])
            if not recheck('after op %d %r' % (n, op)):
                return
        else:
            for k in range(len(insts)):
                for x in type(insts[k][0]).__mro__:
                    if x in cidx:
                        if not check_pair(k, cidx[x], 'op %d (all pairs)' % n):
                            return
