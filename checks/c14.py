"""C14 Calling an interface follows the PEP 246 adaptation order."""
import itertools

from hypothesis import strategies as st

from vlib.core import uniq

RULE = ('complete product: __conform__ behaviour (8) x provided (2) x hook '
        'lists of length 0-3 over {None, value, raises} (40) x alternate '
        '{absent, value, None} (3) x __adapt__ kind (9), plus __conform__ '
        'attached as staticmethod / classmethod / instance attribute '
        '(function, callable object, functools.partial) x 5 behaviours x '
        'provided x hook lists <=2 x alternate x 3 __adapt__ kinds, and the '
        'product over hook lists <=2 repeated with every value false and '
        'empty, in both '
        'implementations, oracle = precedence model incl. call log; plus '
        'Hypothesis-generated registries whose adapter_hook is the only hook, '
        'oracle = queryAdapter; non-trivial = at least two steps could produce '
        'a result or raise; distinct by SHA-1 of the cell')

EXHAUSTIVE = True

CONFORM = ['absent', 'attr_attributeerror', 'attr_valueerror', 'none',
           'value', 'raise_value', 'raise_type', 'raise_attr',
           'unbound_on_class']
# other ways of giving an object a __conform__: the attribute need not be a
# bound method (round-4 seed C14e: exceptions were re-raised only for bound
# methods).  '<form>:<behaviour>'
FORMS = ['static', 'instattr', 'callobj', 'partial', 'classm']
BEHAVE = ['none', 'value', 'raise_value', 'raise_type', 'raise_attr']
CONFORM_FORMS = ['%s:%s' % (f, b) for f in FORMS for b in BEHAVE]
HOOK = ['none', 'value', 'raise']
ALT = ['absent', 'value', 'none']
ADAPT = ['std', 'own_none', 'own_value', 'own_raise', 'own_super',
         'inh_value', 'inh_value_im', 'inh_none_im', 'inh_super_im2']


def configs(tier, seed):
    out = []
    for impl in ('c', 'py'):
        out.append({'name': impl + '-grid', 'impl': impl, 'mode': 'enum'})
        out.append({'name': impl + '-registry', 'impl': impl, 'mode': 'hyp',
                    'n': 800 if tier == 'quick' else 20000})
    return out


def coverage_extra(tier):
    return {'partitions': {'conform x provided x hooks x alternate x adapt':
                           {'exhaustive': True}}}


def enumerate_cases(cfg):
    hooklists = [[]]
    for k in (1, 2, 3):
        hooklists.extend(list(p) for p in itertools.product(HOOK, repeat=k))
    for conform in CONFORM:
        for provided in (False, True):
            for hooks in hooklists:
                for alt in ALT:
                    for adapt in ADAPT:
                        yield {'t': 'grid', 'conform': conform,
                               'provided': provided, 'hooks': hooks,
                               'alt': alt, 'adapt': adapt}
    # every value involved (the object, what __conform__ / hooks /
    # __adapt__ return, the alternate) false and empty: only None means
    # "no result" (seed C14f); complete product over hook lists <= 2
    for conform in CONFORM + CONFORM_FORMS:
        for provided in (False, True):
            for hooks in hooklists:
                if len(hooks) > 2:
                    continue
                for alt in ALT:
                    for adapt in (ADAPT if ':' not in conform else
                                  ('std', 'own_value', 'inh_value_im')):
                        yield {'t': 'grid', 'conform': conform,
                               'provided': provided, 'hooks': hooks,
                               'alt': alt, 'adapt': adapt, 'falsy': True}
    # exceptions that iteration machinery treats specially must propagate
    # unchanged too (seed C14g: hooks consumed through a generator turn a
    # StopIteration into RuntimeError)
    stoplists = [[]]
    for k in (1, 2):
        stoplists.extend(list(p) for p in itertools.product(
            ['none', 'value', 'stop'], repeat=k))
    for conform in ('absent', 'none', 'raise_stop'):
        for provided in (False, True):
            for hooks in stoplists:
                for alt in ALT:
                    for adapt in ('std', 'own_raise_stop', 'own_super',
                                  'inh_super_im2'):
                        yield {'t': 'grid', 'conform': conform,
                               'provided': provided, 'hooks': hooks,
                               'alt': alt, 'adapt': adapt}
    # the other attachment forms, over a reduced but still complete product
    for conform in CONFORM_FORMS:
        for provided in (False, True):
            for hooks in hooklists:
                if len(hooks) > 2:
                    continue
                for alt in ALT:
                    for adapt in ('std', 'own_value', 'inh_value_im'):
                        yield {'t': 'grid', 'conform': conform,
                               'provided': provided, 'hooks': hooks,
                               'alt': alt, 'adapt': adapt}


class _Boom(Exception):
    pass


_SRC = {
 'std': """
class {name}(Interface):
    pass
""",
 'own': """
class {name}(Interface):
    @interfacemethod
    def __adapt__(self, obj):
        return BEHAVE(self, obj, lambda: super(type(self), self).__adapt__(obj))
""",
 'inh': """
class {name}Base(Interface):
    @interfacemethod
    def __adapt__(self, obj):
        return BEHAVE(self, obj, lambda: super(type(self), self).__adapt__(obj))

class {name}({name}Base):
    pass
""",
 'inh_im': """
class {name}Base(Interface):
    @interfacemethod
    def __adapt__(self, obj):
        return BEHAVE(self, obj, lambda: InterfaceClass.__adapt__(self, obj))

class {name}({name}Base):
    @interfacemethod
    def helper(self):
        return 'helper'
""",
 'inh_im2': """
class {name}Base(Interface):
    @interfacemethod
    def __adapt__(self, obj):
        return BEHAVE(self, obj, lambda: InterfaceClass.__adapt__(self, obj))

class {name}Mid({name}Base):
    @interfacemethod
    def helper(self):
        return 'helper'

class {name}({name}Mid):
    @interfacemethod
    def helper2(self):
        return 'helper2'
""",
}


def _make_iface(adapt, log, adapt_value):
    from zope.interface import Interface
    from zope.interface import interfacemethod
    from zope.interface.interface import InterfaceClass
    name = uniq('IC14_')
    if adapt == 'std':
        src, how = 'std', None
    elif adapt.startswith('own_'):
        src, how = 'own', adapt[4:]
    elif adapt == 'inh_value':
        src, how = 'inh', 'value'
    elif adapt == 'inh_value_im':
        src, how = 'inh_im', 'value'
    elif adapt == 'inh_none_im':
        src, how = 'inh_im', 'none'
    elif adapt == 'inh_super_im2':
        src, how = 'inh_im2', 'super'
    else:
        raise AssertionError(adapt)

    def behave(iface, obj, call_super):
        log.append(('adapt', id(iface), id(obj)))
        if how == 'none':
            return None
        if how == 'value':
            return adapt_value
        if how == 'raise':
            raise _Boom('adapt')
        if how == 'raise_stop':
            raise StopIteration('adapt')
        if how == 'super':
            return call_super()
        raise AssertionError(how)

    ns = {'Interface': Interface, 'interfacemethod': interfacemethod,
          'InterfaceClass': InterfaceClass, 'BEHAVE': behave,
          '__name__': 'verif.c14'}
    exec(_SRC[src].format(name=name), ns)
    return ns[name], how


class _Falsy:
    def __bool__(self):
        return False

    def __len__(self):
        return 0


def _grid_case(case, out):
    from zope.interface import directlyProvides
    from zope.interface import interface as zinterface

    log = []
    mkvalue = _Falsy if case.get('falsy') else object
    conform_value = mkvalue()
    adapt_value = mkvalue()
    hook_values = [mkvalue() for _ in case['hooks']]
    alt_value = mkvalue()
    iface, how = _make_iface(case['adapt'], log, adapt_value)
    conform = case['conform']
    form = 'method'
    if ':' in conform:
        form, conform = conform.split(':')

    # --- the object ---
    body = {}
    instattr = None
    if conform == 'attr_attributeerror':
        def _get(self):
            log.append(('conform_attr',))
            raise AttributeError('__conform__')
        body['__conform__'] = property(_get)
    elif conform == 'attr_valueerror':
        def _get(self):
            log.append(('conform_attr',))
            raise ValueError('conform attr')
        body['__conform__'] = property(_get)
    elif conform in ('none', 'value', 'raise_value', 'raise_type',
                     'raise_attr', 'raise_stop'):
        def __conform__(self, i):
            log.append(('conform', id(i)))
            if conform == 'raise_stop':
                raise StopIteration('inside conform')
            if conform == 'none':
                return None
            if conform == 'value':
                return conform_value
            if conform == 'raise_value':
                raise ValueError('inside conform')
            if conform == 'raise_attr':
                raise AttributeError('inside conform')
            raise TypeError('inside conform')
        if form == 'method':
            body['__conform__'] = __conform__
        elif form == 'static':
            body['__conform__'] = staticmethod(
                lambda i: __conform__(None, i))
        elif form == 'classm':
            body['__conform__'] = classmethod(__conform__)
        elif form == 'instattr':
            instattr = lambda i: __conform__(None, i)   # noqa: E731
        elif form == 'partial':
            import functools
            instattr = functools.partial(__conform__, None)
        elif form == 'callobj':
            class _Callable:
                def __call__(self, i):
                    return __conform__(None, i)
            instattr = _Callable()
        else:
            raise AssertionError(form)
    elif conform == 'unbound_on_class':
        def __conform__(self, i):
            log.append(('conform', id(i)))
            return conform_value
        body['__conform__'] = __conform__
    if case.get('falsy'):
        body['__bool__'] = lambda self: False
        body['__len__'] = lambda self: 0
    cls = type('Obj', (), body)
    if conform == 'unbound_on_class':
        obj = cls            # the class object itself is adapted
    else:
        obj = cls()
    if instattr is not None:
        obj.__conform__ = instattr
    if case['provided']:
        directlyProvides(obj, iface)

    hooks = []
    for k, kind in enumerate(case['hooks']):
        def hook(i, o, k=k, kind=kind):
            log.append(('hook', k, id(i), id(o)))
            if kind == 'none':
                return None
            if kind == 'value':
                return hook_values[k]
            if kind == 'stop':
                raise StopIteration('hook %d' % k)
            raise _Boom('hook %d' % k)
        hooks.append(hook)

    # --- model ---
    exp_log = []
    exp = None           # ('ret', obj) / ('exc', type, args)
    candidates = 0

    def std_adapt():
        nonlocal candidates
        if case['provided']:
            candidates += 1
            return ('ret', obj)
        for k, kind in enumerate(case['hooks']):
            exp_log.append(('hook', k, id(iface), id(obj)))
            if kind == 'value':
                candidates += 1
                return ('ret', hook_values[k])
            if kind == 'raise':
                candidates += 1
                return ('exc', _Boom, ('hook %d' % k,))
            if kind == 'stop':
                candidates += 1
                return ('exc', StopIteration, ('hook %d' % k,))
        return None

    def model():
        nonlocal candidates
        if conform in ('attr_attributeerror', 'attr_valueerror'):
            exp_log.append(('conform_attr',))
            if conform == 'attr_valueerror':
                candidates += 1
                return ('exc', ValueError, ('conform attr',))
        elif conform in ('none', 'value', 'raise_value', 'raise_type',
                         'raise_attr', 'raise_stop'):
            exp_log.append(('conform', id(iface)))
            if conform == 'raise_stop':
                candidates += 1
                return ('exc', StopIteration, ('inside conform',))
            if conform == 'raise_attr':
                candidates += 1
                return ('exc', AttributeError, ('inside conform',))
            if conform == 'value':
                candidates += 1
                return ('ret', conform_value)
            if conform == 'raise_value':
                candidates += 1
                return ('exc', ValueError, ('inside conform',))
            if conform == 'raise_type':
                candidates += 1
                return ('exc', TypeError, ('inside conform',))
        # 'unbound_on_class': calling the plain function with one argument
        # fails before it runs: treated as no __conform__
        r = None
        if how is None:
            r = std_adapt()
        else:
            exp_log.append(('adapt', id(iface), id(obj)))
            if how == 'value':
                candidates += 1
                r = ('ret', adapt_value)
            elif how == 'raise':
                candidates += 1
                r = ('exc', _Boom, ('adapt',))
            elif how == 'raise_stop':
                candidates += 1
                r = ('exc', StopIteration, ('adapt',))
            elif how == 'super':
                r = std_adapt()
        if r is not None:
            return r
        if case['alt'] == 'value':
            candidates += 1
            return ('ret', alt_value)
        if case['alt'] == 'none':
            candidates += 1
            return ('ret', None)
        return ('exc', TypeError, ('Could not adapt', obj, iface))

    exp = model()
    # count what *could* have produced an outcome
    possible = 0
    possible += conform in ('value', 'raise_value', 'raise_type',
                            'raise_attr', 'attr_valueerror', 'raise_stop')
    possible += bool(case['provided'])
    possible += sum(1 for h in case['hooks'] if h != 'none')
    possible += case['alt'] != 'absent'
    possible += how in ('value', 'raise', 'raise_stop')
    if possible >= 2:
        out.nontrivial = True

    saved = list(zinterface.adapter_hooks)
    zinterface.adapter_hooks[:] = hooks
    try:
        try:
            if case['alt'] == 'absent':
                res = iface(obj)
            elif case['alt'] == 'value':
                res = iface(obj, alt_value)
            else:
                res = iface(obj, None)
            got = ('ret', res)
        except Exception as e:  # noqa
            got = ('exc', type(e), e.args)
        got_log = list(log)
        # __adapt__ called directly: same as the adapt step alone
        del log[:]
    finally:
        zinterface.adapter_hooks[:] = saved

    out.checks += 1
    same = (got[0] == exp[0] and
            (got[1] is exp[1]) and
            (got[0] == 'ret' or _args_same(got[2], exp[2])))
    if not same:
        out.fail('outcome', 'cell %r: got %r, expected %r' % (
            case, _show(got), _show(exp)))
        return
    if got_log != exp_log:
        out.fail('call-log', 'cell %r: calls %r, expected %r' % (
            case, _showlog(got_log), _showlog(exp_log)))


def _args_same(a, b):
    if len(a) != len(b):
        return False
    return all(x is y or (isinstance(x, str) and x == y)
               for x, y in zip(a, b))


def _show(o):
    if o[0] == 'ret':
        return ('ret', type(o[1]).__name__, hex(id(o[1]) & 0xffff))
    return ('exc', o[1].__name__, tuple(x if isinstance(x, str) else
                                        type(x).__name__ for x in o[2]))


def _showlog(log):
    return [e[:2] if e[0] == 'hook' else e[:1] for e in log]


# --- registry variant -----------------------------------------------------

@st.composite
def reg_strategy(draw):
    nif = draw(st.integers(2, 5))
    ibases = [draw(st.lists(st.integers(0, i - 1), max_size=2, unique=True))
              if i else [] for i in range(nif)]
    ncls = draw(st.integers(1, 4))
    classes = []
    for c in range(ncls):
        classes.append({
            'bases': draw(st.lists(st.integers(0, c - 1), max_size=1))
            if c else [],
            'implements': draw(st.lists(st.integers(0, nif - 1), max_size=2,
                                        unique=True))})
    regs = draw(st.lists(st.tuples(
        st.integers(0, nif + ncls),     # required: iface / class / None
        st.integers(0, nif - 1),        # provided
        st.sampled_from(['', '', 'n']),
        st.sampled_from(['wrap', 'wrap', 'none'])), max_size=8))
    queries = draw(st.lists(st.tuples(
        st.integers(0, ncls - 1), st.integers(0, nif - 1),
        st.sampled_from(ALT), st.lists(st.integers(0, nif - 1), max_size=1)),
        min_size=1, max_size=6))
    flavour = draw(st.sampled_from(['plain', 'verifying']))
    return {'t': 'reg', 'ibases': ibases, 'classes': classes,
            'regs': [list(r) for r in regs],
            'queries': [list(q) for q in queries], 'flavour': flavour}


def strategy(cfg):
    return reg_strategy()


def _reg_case(case, out):
    from zope.interface import Interface
    from zope.interface import classImplements
    from zope.interface import directlyProvides
    from zope.interface import implementedBy
    from zope.interface import interface as zinterface
    from zope.interface.adapter import AdapterRegistry
    from zope.interface.adapter import VerifyingAdapterRegistry
    from zope.interface.interface import InterfaceClass

    ifaces = []
    for i, bs in enumerate(case['ibases']):
        ifaces.append(InterfaceClass(
            uniq('IR14_'), tuple(ifaces[b] for b in bs) or (Interface,), {},
            __module__='verif.c14'))
    classes = []
    for c, spec in enumerate(case['classes']):
        cls = type('K%d' % c, tuple(classes[b] for b in spec['bases']) or
                   (object,), {})
        classImplements(cls, *[ifaces[i] for i in spec['implements']])
        classes.append(cls)
    reg = (AdapterRegistry if case['flavour'] == 'plain'
           else VerifyingAdapterRegistry)()

    class Wrap:
        def __init__(self, label, ob):
            self.label, self.ob = label, ob

        def __bool__(self):         # every other adapter is false
            return bool(self.label % 2)

    nif = len(ifaces)
    for k, (req, prov, name, kind) in enumerate(case['regs']):
        if req < nif:
            r = ifaces[req]
        elif req < nif + len(classes):
            r = implementedBy(classes[req - nif])
        else:
            r = None
        if kind == 'wrap':
            def factory(ob, k=k):
                return Wrap(k, ob)
        else:
            def factory(ob, k=k):
                return None
        reg.register([r], ifaces[prov], name, factory)

    saved = list(zinterface.adapter_hooks)
    zinterface.adapter_hooks[:] = [reg.adapter_hook]
    try:
        for ci, ii, alt, direct in case['queries']:
            ob = classes[ci]()
            if direct:
                directlyProvides(ob, *[ifaces[d] for d in direct])
            iface = ifaces[ii]
            altv = object()
            exp_q = reg.queryAdapter(ob, iface)
            if iface.providedBy(ob):
                exp = ('ret', ob)
            elif exp_q is not None:
                exp = ('wrap', exp_q.label, exp_q.ob)
                out.nontrivial = True
            elif alt == 'value':
                exp = ('ret', altv)
            elif alt == 'none':
                exp = ('ret', None)
            else:
                exp = ('exc', TypeError)
            try:
                if alt == 'absent':
                    r = iface(ob)
                elif alt == 'value':
                    r = iface(ob, altv)
                else:
                    r = iface(ob, None)
                if isinstance(r, Wrap):
                    got = ('wrap', r.label, r.ob)
                else:
                    got = ('ret', r)
            except TypeError as e:
                got = ('exc', TypeError)
                if e.args[:1] != ('Could not adapt',):
                    got = ('exc', TypeError, e.args)
            out.checks += 1
            if len(got) != len(exp) or any(a is not b and a != b
                                            for a, b in zip(got, exp)):
                out.fail('registry-hook', 'I(obj) = %r but queryAdapter path '
                         'expects %r (case %r)' % (got, exp, case))
                return
    finally:
        zinterface.adapter_hooks[:] = saved


def run_case(case, cfg, out):
    if case['t'] == 'grid':
        _grid_case(case, out)
    else:
        _reg_case(case, out)
