"""C01 providedBy/implementedBy report exactly the declared and inherited
interfaces, after any history of declaration calls."""
import gc

from hypothesis import strategies as st

from vlib import models
from vlib.core import make_class
from vlib.core import uniq

RULE = ('interface DAG (2-7, <=3 bases), classes created at any point '
        '(multiple inheritance), instances created / forgotten at any point, '
        'op-lists (<=40) over implementer, implementer_only, classImplements, '
        'classImplementsOnly, classImplementsFirst, directlyProvides, '
        'alsoProvides, noLongerProvides, provider/directlyProvides(cls) with '
        'nested tuples, Declaration objects and implementedBy(Other) as '
        'arguments; after every checked step every class, instance and class '
        'object is queried through all four entry points and compared with a '
        'reference declaration model (band MUST <= reported <= MAY, a point '
        'unless a redundant declaration was made); non-trivial = (a) a '
        'class-level change after an instance or subclass of that class was '
        'queried, or (b) an instance declaration made after its class was '
        'narrowed, or (c) two live instances sharing one declaration key; '
        'distinct by SHA-1')

GC_EVERY = 20


# thorough tier: coverage-guided campaigns on top of the random ones
ATHERIS = [{'impl': 'py', 'n': 6000, 'name': 'py-atheris'},
           {'impl': 'c', 'n': 6000, 'name': 'c-atheris'}]


def configs(tier, seed):
    n = 1500 if tier == 'quick' else 16000
    return [{'name': impl + '-decl', 'impl': impl, 'mode': 'hyp', 'n': n}
            for impl in ('c', 'py')]


# --- generator ------------------------------------------------------------

# operands concentrate on a few objects so that histories revisit them
IDX = st.sampled_from([0, 0, 0, 0, 1, 1, 1, 2, 2, 3, 4, 5, 7, 11, 17, 29])

@st.composite
def term(draw, nested=True, depth=0, allow_c=False):
    kinds = ['i'] * 5
    if allow_c:
        kinds.append('c')
    if nested and depth < 2:
        kinds += ['t', 'd']
    k = draw(st.sampled_from(kinds))
    if k == 'i':
        return ['i', draw(IDX)]
    if k == 'c':
        return ['c', draw(IDX)]
    n = draw(st.integers(0, 2))
    return [k, [draw(term(nested, depth + 1, allow_c and k != 'd'))
                for _ in range(n)]]


def args(nested=True, allow_c=False, lo=0, hi=3):
    # half of the time a single plain interface: identical declaration keys
    # (shared cached instance declarations) become common
    return st.one_of(
        st.lists(term(False, 9, False), min_size=1, max_size=1),
        st.lists(term(nested, 0, allow_c), min_size=lo, max_size=hi))


@st.composite
def op_strategy(draw):
    k = draw(st.sampled_from(
        ['newclass'] * 3 + ['newinst'] * 4 + ['classImplements'] * 4 +
        ['classImplementsOnly'] * 3 + ['classImplementsFirst'] +
        ['directlyProvides'] * 5 + ['alsoProvides'] * 3 +
        ['noLongerProvides'] * 2 + ['forget'] + ['query'] * 2 +
        ['sameas'] * 2))
    chk = draw(st.integers(0, 9)) < 7
    if k == 'newclass':
        deco = draw(st.sampled_from([None, None, 'impl', 'impl', 'only']))
        return ['newclass', draw(st.lists(IDX, max_size=3)),
                deco, draw(args(nested=(deco != 'only'), allow_c=True,
                                lo=1)) if deco else [],
                {'slots': draw(st.integers(0, 3)) == 0,
                 # also list an ancestor of the first base as a direct base
                 # (class C(B, A) with B(A)): legal, and the specification
                 # of C must keep A when B stops inheriting (seed C01e)
                 'redund': draw(st.integers(0, 3)) == 0,
                 'rpick': draw(st.integers(0, 5)),
                 # created by a custom metaclass (which may itself be
                 # declared to implement something: the class object then
                 # provides that too) - seed C01g
                 'meta': draw(st.integers(0, 3)) == 0}, chk]
    if k == 'newinst':
        return ['newinst', draw(IDX), chk]
    if k == 'classImplements':
        return [k, draw(IDX), draw(args(allow_c=True)), chk]
    if k == 'classImplementsOnly':
        return [k, draw(IDX),
                draw(args(nested=False, allow_c=True)), chk]
    if k == 'classImplementsFirst':
        return [k, draw(IDX),
                [draw(term(False, 0, True))], chk]
    if k in ('directlyProvides', 'alsoProvides'):
        return [k, draw(st.sampled_from(['o', 'o', 'o', 'k'])),
                draw(IDX), draw(args()), chk]
    if k == 'noLongerProvides':
        return [k, draw(st.sampled_from(['o', 'o', 'o', 'k'])),
                draw(IDX), draw(IDX), chk]
    if k == 'sameas':
        # a new instance of the class of the instance declared last gets
        # the very same declaration call: the two share the cache key of
        # instance declarations, whatever happened to the class in between
        # (seeds C01h, C02h)
        return ['sameas', chk]
    if k == 'forget':
        return ['forget', draw(IDX), chk]
    return ['query', chk]


@st.composite
def case_strategy(draw):
    nif = draw(st.integers(2, 7))
    ibases = []
    for i in range(nif):
        k = draw(st.integers(0, min(3, i)))
        ibases.append(draw(st.lists(st.integers(0, i - 1), min_size=k,
                                    max_size=k, unique=True)) if k else [])
    # prelude: some classes and instances exist from the start, otherwise
    # most steps would find nothing to act on
    ops = []
    for _ in range(draw(st.integers(1, 3))):
        deco = draw(st.sampled_from([None, 'impl', 'impl', 'only']))
        ops.append(['newclass', draw(st.lists(IDX, max_size=2)), deco,
                    draw(args(nested=(deco != 'only'), allow_c=True, lo=1))
                    if deco else [],
                    {'slots': draw(st.integers(0, 3)) == 0},
                    draw(st.booleans())])
    for _ in range(draw(st.integers(1, 3))):
        ops.append(['newinst', draw(IDX), draw(st.booleans())])
    ops += draw(st.lists(op_strategy(), min_size=3, max_size=36))
    if draw(st.integers(0, 3)) == 0 and nif >= 2:
        # recipe: the class implements x; an instance declares (x, y) - x is
        # left out of the shared declaration as redundant; the class is
        # re-declared to implement only y; a second instance declares
        # (x, y) again: it must provide x (seed C01h).  Index -1 = the
        # instance created last.
        c = draw(IDX)
        x = draw(st.integers(0, nif - 1))
        y = draw(st.integers(0, nif - 1).filter(lambda v: v != x))
        extra = draw(st.sampled_from([[], [], [['i', draw(IDX)]]]))
        recipe = [['classImplements', c, [['i', x]], True],
                  ['newinst', c, False],
                  [draw(st.sampled_from(['directlyProvides',
                                         'alsoProvides'])), 'o', -1,
                   [['i', x], ['i', y]], True],
                  ['classImplementsOnly', c, [['i', y]] + extra, True],
                  ['sameas', True]]
        cut = draw(st.integers(0, len(ops)))
        # no class may be created in between (class operands are taken
        # modulo the number of classes): keep the recipe contiguous
        ops = ops[:cut] + recipe + ops[cut:]
    return {'ibases': ibases, 'ops': ops,
            'meta_iface': draw(st.one_of(st.none(),
                                         st.integers(0, nif - 1),
                                         st.integers(0, nif - 1)))}


def strategy(cfg):
    return case_strategy()


# --- model ----------------------------------------------------------------

class Model:
    def __init__(self, ibases):
        self.ibases = ibases
        self.classes = []   # dict(bases, must, may, inherit, cp_must, cp_may)
        self.insts = []     # dict(cls, must, may, alive)
        self._memo = {}

    def ireach(self, i):
        return models.reach(self.ibases, i, self._memo)

    def expand(self, atoms, mode):
        out = set()
        for kind, v in atoms:
            if kind == 'i':
                out |= self.ireach(v)
            else:
                out |= self.class_impl(v, mode)
        return out

    def class_impl(self, c, mode):
        cl = self.classes[c]
        out = self.expand(cl[mode], mode)
        if cl['inherit']:
            for b in cl['bases']:
                out |= self.class_impl(b, mode)
        return out

    def spec_ancestors(self, c, mode):
        """class specs that are ancestors of class spec c (incl. itself)"""
        seen = set()
        stack = [c]
        while stack:
            x = stack.pop()
            if x in seen:
                continue
            seen.add(x)
            cl = self.classes[x]
            stack.extend(v for kind, v in cl[mode] if kind == 'c')
            if cl['inherit']:
                stack.extend(cl['bases'])
        return seen

    def implied_by_class(self, c, atom, mode):
        if atom[0] == 'i':
            return atom[1] in self.class_impl(c, mode)
        return atom[1] in self.spec_ancestors(c, mode)

    def inst_provided(self, k, mode):
        ins = self.insts[k]
        return self.expand(ins[mode], mode) | self.class_impl(ins['cls'], mode)

    def cls_provided(self, c, mode):
        cl = self.classes[c]
        # a class object is an instance of its metaclass
        return self.expand(cl['cp_' + mode], mode) | set(cl.get('meta', ()))


def _flatten(t, out):
    """normalised argument atoms of a term (Declaration objects expand to
    their interfaces, which for the generated terms are the same atoms)"""
    k, v = t
    if k in ('i', 'c'):
        out.append((k, v))
    else:
        for x in v:
            _flatten(x, out)
    return out


def run_case(case, cfg, out):
    from zope.interface import Interface
    from zope.interface import alsoProvides
    from zope.interface import classImplements
    from zope.interface import classImplementsFirst
    from zope.interface import classImplementsOnly
    from zope.interface import directlyProvidedBy
    from zope.interface import directlyProvides
    from zope.interface import implementedBy
    from zope.interface import implementer
    from zope.interface import implementer_only
    from zope.interface import noLongerProvides
    from zope.interface import providedBy
    from zope.interface.declarations import Declaration
    from zope.interface.interface import InterfaceClass

    ibases = case['ibases']
    nif = len(ibases)
    tag = uniq('c01_')
    ifaces = []
    for i, bs in enumerate(ibases):
        ifaces.append(InterfaceClass(
            '%s_%d' % (tag, i), tuple(ifaces[b] for b in bs) or (Interface,),
            {}, __module__='verif.c01'))
    iidx = {id(x): i for i, x in enumerate(ifaces)}
    M = Model(ibases)
    rclasses = []
    rinsts = []
    queried_classes = set()      # classes (or their subclasses/instances)
    narrowed = set()             # classes narrowed by an *only* form
    nt = {'a': False, 'b': False, 'c': False}

    def resolve_terms(terms, c_limit):
        """bind operands: iface index modulo nif, class index modulo limit;
        returns (bound terms, real args)"""
        def bind(t):
            k, v = t
            if k == 'i':
                return ['i', v % nif]
            if k == 'c':
                if c_limit <= 0:
                    return ['i', v % nif]
                return ['c', v % c_limit]
            return [k, [bind(x) for x in v]]

        def real(t):
            k, v = t
            if k == 'i':
                return ifaces[v]
            if k == 'c':
                return implementedBy(rclasses[v])
            if k == 't':
                return tuple(real(x) for x in v)
            return Declaration(*[real(x) for x in v])
        bound = [bind(t) for t in terms]
        return bound, [real(t) for t in bound]

    def declare_class(c, atoms, how):
        cl = M.classes[c]
        if how == 'only':
            cl['inherit'] = False
            cl['must'] = set(atoms)
            cl['may'] = set(atoms)
            return
        # redundancy is judged against the state before the call
        add_must, add_may = set(), set()
        for a in atoms:
            if a == ('c', c):
                continue
            if not M.implied_by_class(c, a, 'may'):
                add_must.add(a)
            add_may.add(a)
        cl['must'] |= add_must
        cl['may'] |= add_may

    def real_set(spec):
        got = set()
        for x in spec.flattened():
            if x is Interface:
                continue
            got.add(iidx.get(id(x), -1))
        return got

    def check_obj(what, real_spec, must, may, probe):
        out.checks += 1
        got = real_set(real_spec)
        if not (must <= got <= may):
            out.fail('band-' + what.split()[0],
                     '%s reports %r, must contain %r and be within %r' % (
                         what, sorted(got), sorted(must), sorted(may)))
            return False
        for i in range(nif):
            r = probe(ifaces[i])
            if bool(r) != (i in got):
                out.fail('entrypoints-disagree', '%s: I%d answers %r but the '
                         'declaration lists %r' % (what, i, r, sorted(got)))
                return False
        if not probe(Interface):
            out.fail('root', '%s does not provide Interface' % what)
            return False
        return True

    order_flip = [0]

    def check_all(stage):
        # queries have side effects (lazy creation of class specifications
        # and class-provides descriptors), so the order alternates
        order_flip[0] += 1
        phases = ['inst', 'cobj', 'impl'] if order_flip[0] % 2 else \
            ['impl', 'cobj', 'inst']
        for ph in phases:
            if ph == 'impl':
                for c, cls in enumerate(rclasses):
                    if not check_obj('%s: class %d implementedBy' % (stage, c),
                                     implementedBy(cls),
                                     M.class_impl(c, 'must'),
                                     M.class_impl(c, 'may'),
                                     lambda I: I.implementedBy(cls)):
                        return False
                    queried_classes.add(c)
            elif ph == 'cobj':
                for c, cls in enumerate(rclasses):
                    if not check_obj('%s: classobject %d providedBy' % (
                            stage, c), providedBy(cls),
                            M.cls_provided(c, 'must'),
                            M.cls_provided(c, 'may'),
                            lambda I: I.providedBy(cls)):
                        return False
            else:
                if not check_insts(stage):
                    return False
        return check_sharing()

    def check_insts(stage):
        for k, ob in enumerate(rinsts):
            if ob is None:
                continue
            if not check_obj('%s: instance %d (class %d) providedBy' % (
                    stage, k, M.insts[k]['cls']), providedBy(ob),
                    M.inst_provided(k, 'must'), M.inst_provided(k, 'may'),
                    lambda I: I.providedBy(ob)):
                return False
            direct = {iidx.get(id(x), -1) for x in directlyProvidedBy(ob)}
            ins = M.insts[k]
            dm = {v for kind, v in ins['must']}
            dM = {v for kind, v in ins['may']}
            if not (dm <= direct <= dM):
                out.fail('directlyProvidedBy', '%s: instance %d directly '
                         'provides %r, band %r..%r' % (stage, k,
                                                       sorted(direct),
                                                       sorted(dm), sorted(dM)))
                return False
        return True

    def check_sharing():
        # sharing: two live instances with the same declaration object
        seen = {}
        for k, ob in enumerate(rinsts):
            if ob is None:
                continue
            if hasattr(ob, '__dict__'):
                p = ob.__dict__.get('__provides__')
            else:
                # slotted instance: the slot descriptor of its own class
                # (an unset slot raises AttributeError)
                p = None
                for c in type(ob).__mro__:
                    d = c.__dict__.get('__provides__')
                    if d is not None and '__slots__' in c.__dict__:
                        try:
                            p = d.__get__(ob, type(ob))
                        except AttributeError:
                            p = None
                        break
            if p is not None:
                if id(p) in seen:
                    nt['c'] = True
                seen[id(p)] = k
        return True

    def subclasses_of(c):
        return [j for j in range(len(M.classes))
                if c in _anc(j)]

    def _anc(j):
        seen = set()
        stack = [j]
        while stack:
            x = stack.pop()
            if x in seen:
                continue
            seen.add(x)
            stack.extend(M.classes[x]['bases'])
        return seen

    meta_box = []

    def get_meta():
        if not meta_box:
            Meta = type('Meta', (type,), {})
            if case.get('meta_iface') is not None:
                classImplements(Meta, ifaces[case['meta_iface'] % nif])
            meta_box.append(Meta)
        return meta_box[0]

    last_inst_decl = [None]
    for step, op in enumerate(case['ops']):
        kind = op[0]
        chk = op[-1]
        if kind == 'sameas':
            if last_inst_decl[0] is None:
                continue
            kind0, t0, terms = last_inst_decl[0]
            c0 = M.insts[t0]['cls']
            rinsts.append(rclasses[c0]())
            M.insts.append({'cls': c0, 'must': set(), 'may': set()})
            nlive = sum(1 for ob in rinsts if ob is not None)
            op = [kind0, 'o', nlive - 1, terms, chk]
            kind = kind0
            out.tag('same_declaration_on_new_instance')
        if kind == 'newclass':
            bidx = []
            for b in op[1]:
                if rclasses:
                    b = b % len(rclasses)
                    if b not in bidx:
                        bidx.append(b)
            if len(op) > 5 and op[4].get('redund') and rclasses:
                derived = [x for x in range(len(rclasses))
                           if M.classes[x]['bases']]
                if derived and (not bidx or
                                not M.classes[bidx[0]]['bases']):
                    # start from a class that has ancestors
                    bidx = [derived[op[4].get('rpick', 0) % len(derived)]]
            if len(op) > 5 and op[4].get('redund') and bidx:
                anc, stack = [], list(M.classes[bidx[0]]['bases'])
                while stack:
                    x = stack.pop(0)
                    if x not in anc:
                        anc.append(x)
                        stack.extend(M.classes[x]['bases'])
                anc = [x for x in anc if x not in bidx]
                if anc:
                    bidx.append(anc[op[4].get('rpick', 0) % len(anc)])
                    out.tag('redundant_direct_base')
            # some classes have no instance __dict__, only a slot for
            # the instance declaration
            body = {}
            if len(op) > 5 and op[4].get('slots'):
                body = {'__slots__': ('__provides__',)}
                out.tag('slotted_class')
            def _slotted(b):
                return any('__provides__' in k.__dict__.get('__slots__', ())
                           for k in rclasses[b].__mro__)
            if any(type(rclasses[b]) is not type for b in bidx) and \
                    any(_slotted(b) for b in bidx):
                bidx = bidx[:1]         # see below: not a usable shape
                out.adjusted += 1
            want_meta = len(op) > 5 and op[4].get('meta')
            if want_meta and any(
                    '__provides__' in k.__dict__.get('__slots__', ())
                    for b in bidx for k in rclasses[b].__mro__):
                want_meta = False       # see below
            if body and (want_meta or any(type(rclasses[b]) is not type
                                          for b in bidx)):
                # a __provides__ slot would shadow the declaration of the
                # class object itself (which a declared metaclass looks
                # up): not a usable shape
                body = {}
            cls, kept = make_class('K%d' % len(rclasses),
                                   [rclasses[b] for b in bidx], body,
                                   meta=get_meta() if want_meta else None)
            if kept != len(bidx):
                out.adjusted += 1
            bidx = bidx[:kept]
            c = len(rclasses)
            M.classes.append({'bases': bidx, 'must': set(), 'may': set(),
                              'inherit': True, 'cp_must': set(),
                              'cp_may': set()})
            if type(cls) is not type:
                # own metaclass or inherited from a base
                out.tag('class_with_metaclass')
                if case.get('meta_iface') is not None:
                    M.classes[c]['meta'] = M.ireach(
                        case['meta_iface'] % nif)
            deco = op[2]
            if deco:
                bound, reals = resolve_terms(op[3], c)
                atoms = _flatten(['t', bound], [])
                if deco == 'impl':
                    rclasses.append(cls)
                    implementer(*reals)(cls)
                    declare_class(c, atoms, 'add')
                else:
                    rclasses.append(cls)
                    implementer_only(*reals)(cls)
                    declare_class(c, atoms, 'only')
                    narrowed.add(c)
            else:
                rclasses.append(cls)
        elif kind == 'newinst':
            if not rclasses:
                continue
            c = op[1] % len(rclasses)
            rinsts.append(rclasses[c]())
            M.insts.append({'cls': c, 'must': set(), 'may': set()})
        elif kind in ('classImplements', 'classImplementsOnly',
                      'classImplementsFirst'):
            if not rclasses:
                continue
            c = op[1] % len(rclasses)
            bound, reals = resolve_terms(op[2], c)
            atoms = [a for a in _flatten(['t', bound], [])]
            if any(j in queried_classes for j in subclasses_of(c)):
                nt['a'] = True
            if kind == 'classImplements':
                classImplements(rclasses[c], *reals)
                declare_class(c, atoms, 'add')
            elif kind == 'classImplementsFirst':
                classImplementsFirst(rclasses[c], reals[0])
                declare_class(c, atoms, 'add')
            else:
                classImplementsOnly(rclasses[c], *reals)
                declare_class(c, atoms, 'only')
                narrowed.add(c)
            out.tag(kind)
        elif kind in ('directlyProvides', 'alsoProvides',
                      'noLongerProvides'):
            on_class = op[1] == 'k'
            if on_class:
                if not rclasses:
                    continue
                t = op[2] % len(rclasses)
                target = rclasses[t]
                if any('__slots__' in c.__dict__ for c in target.__mro__):
                    # a declaration on the class object is stored as the
                    # class attribute __provides__ and would replace the
                    # slot of the same name that instances of this class
                    # need for theirs: not a shape anybody can use
                    out.adjusted += 1
                    continue
                rec = M.classes[t]
                mk, Mk = 'cp_must', 'cp_may'
                ccls = None
            else:
                live = [k for k, ob in enumerate(rinsts) if ob is not None]
                if not live:
                    continue
                t = live[op[2] % len(live)]
                target = rinsts[t]
                rec = M.insts[t]
                mk, Mk = 'must', 'may'
                ccls = rec['cls']
                if kind != 'noLongerProvides':
                    last_inst_decl[0] = (kind, t, op[3])
                if _anc(ccls) & narrowed:
                    nt['b'] = True

            def redeclare(definite, maybe):
                new_must = set()
                for a in definite:
                    if ccls is None or not M.implied_by_class(ccls, a, 'may'):
                        new_must.add(a)
                rec[mk] = new_must
                rec[Mk] = set(definite) | set(maybe)

            if kind == 'noLongerProvides':
                i = op[3] % nif
                definite = {a for a in rec[mk] if i not in M.ireach(a[1])}
                maybe = {a for a in rec[Mk] - rec[mk]
                         if i not in M.ireach(a[1])}
                try:
                    noLongerProvides(target, ifaces[i])
                    raised = False
                except ValueError:
                    raised = True
                redeclare(definite, maybe)
                if on_class:
                    must_p = M.cls_provided(t, 'must')
                    may_p = M.cls_provided(t, 'may')
                else:
                    must_p = M.inst_provided(t, 'must')
                    may_p = M.inst_provided(t, 'may')
                if i in must_p and not raised:
                    out.fail('noLongerProvides-silent',
                             'step %d: noLongerProvides(I%d) did not raise '
                             'although the class still provides it' % (step,
                                                                       i))
                    return
                if i not in may_p and raised:
                    out.fail('noLongerProvides-raised',
                             'step %d: noLongerProvides(I%d) raised '
                             'ValueError but the interface is gone' % (step,
                                                                       i))
                    return
            else:
                bound, reals = resolve_terms(op[3], 0)
                atoms = _flatten(['t', bound], [])
                if kind == 'directlyProvides':
                    directlyProvides(target, *reals)
                    redeclare(set(atoms), set())
                else:
                    definite = set(rec[mk]) | set(atoms)
                    maybe = rec[Mk] - rec[mk]
                    alsoProvides(target, *reals)
                    redeclare(definite, maybe)
            out.tag(kind + ('_class' if on_class else ''))
        elif kind == 'forget':
            live = [k for k, ob in enumerate(rinsts) if ob is not None]
            if not live:
                continue
            t = live[op[1] % len(live)]
            rinsts[t] = None
            gc.collect()
        if chk or kind == 'query':
            if not check_all('step %d %s' % (step, kind)):
                return
    check_all('end')
    if nt['a'] or nt['b'] or nt['c']:
        out.nontrivial = True
    for k, v in nt.items():
        if v:
            out.tag('nt_' + k)
