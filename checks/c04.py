"""C04 Adapter lookup returns the most specific applicable registration."""
from hypothesis import strategies as st

from vlib import reguniv
from vlib.reguniv import IDX
from vlib.reguniv import NAMES
from vlib.reguniv import Universe
from vlib.reguniv import Val

RULE = ('generated universes: required-side interfaces (DAG), classes with '
        'declarations, instances with direct declarations, provided-side '
        'interface DAG, DAG of 1-3 registries of either flavour, 1-15 '
        'registrations of arity 0-3 with interface / implementedBy(cls) / '
        'None keys and names, in a third of the cases the lookup objects '
        're-created over the stored registrations; lookup keys derived from registrations '
        '(descendants of the registered keys, ancestors of the registered '
        'provided) with p~0.8, free otherwise; oracle = admissible set of the '
        'reference model (exact answer when it has one element, membership '
        'otherwise, default when empty); non-trivial = a lookup with >=2 '
        'applicable registrations carrying distinct values; distinct by '
        'SHA-1')


# thorough tier: coverage-guided campaigns on top of the random ones
ATHERIS = [{'impl': 'py', 'n': 30000, 'name': 'py-atheris'},
           {'impl': 'c', 'n': 30000, 'name': 'c-atheris'}]

def configs(tier, seed):
    n = 1200 if tier == 'quick' else 20000
    return [{'name': impl + '-lookup', 'impl': impl, 'mode': 'hyp', 'n': n}
            for impl in ('c', 'py')]


@st.composite
def case_strategy(draw):
    bp = draw(reguniv.blueprint(max_prov=5))
    nregs = draw(st.integers(1, 15))
    regs = []
    for k in range(nregs):
        if k and draw(st.integers(0, 3)) == 0:
            # same registry, key and name as an earlier registration, any
            # provided interface: exercises the provided-generality axis and
            # the order in which provided interfaces become known
            regs.append(['relp', draw(IDX), draw(st.integers(0, 40)), k])
        elif k and draw(st.booleans()):
            # related to an earlier registration: one position generalised
            # (or specialised), provided moved along the provided DAG
            regs.append(['rel', draw(IDX), draw(IDX), draw(IDX),
                         draw(st.integers(0, 40)), draw(st.integers(0, 40)),
                         draw(st.booleans()), k])
        else:
            regs.append([draw(IDX), draw(reguniv.reg_key_biased()),
                         draw(IDX), draw(st.sampled_from(NAMES + ['', ''])),
                         k])
    if draw(st.integers(0, 2)) == 0:
        # recipe: a provided-side hierarchy with a chain and a branch
        # (P1(P0), P2(P1), P3(P0), P4(...)), and one (registry, required,
        # name) key registered for several of them in a drawn order - the
        # order in which provided interfaces become known to the registry
        # shapes its table of extendors (seeds C04b, C04c)
        bp['pbases'] = [[], [0], [1], [0],
                        draw(st.sampled_from([[0], [3], [1, 3], [2]]))]
        order = list(draw(st.permutations([0, 1, 2, 3, 4])))
        order = order[:draw(st.integers(3, 5))]
        first = regs[0] if regs[0][0] not in ('rel', 'relp') else \
            [draw(IDX), draw(reguniv.reg_key_biased()), order[0], '', 0]
        first = list(first)
        first[2] = order[0]
        regs = [first] + [['relp', 0, pp, 100 + k]
                          for k, pp in enumerate(order[1:])] + regs[1:]
    lookups = []
    for _ in range(draw(st.integers(1, 12))):
        if draw(st.integers(0, 9)) < 8:
            lookups.append(['derived', draw(IDX), draw(IDX),
                            draw(st.lists(st.integers(0, 40), min_size=3,
                                          max_size=3)),
                            draw(st.integers(0, 40)),
                            draw(st.integers(0, 9)) == 0])
        else:
            lookups.append(['free', draw(IDX),
                            draw(st.lists(reguniv.spec_ref(), max_size=3)),
                            draw(IDX), draw(st.sampled_from(NAMES))])
    # the lookup objects re-created over the existing registration data, as
    # persistent registries do when they are loaded (their __setstate__
    # calls _createLookup(), which rebuilds the table of extendors from the
    # registry's contents instead of from the registration history)
    return {'bp': bp, 'regs': regs, 'lookups': lookups,
            'recreate': draw(st.integers(0, 2)) == 0}


def strategy(cfg):
    return case_strategy()


def run_case(case, cfg, out):
    U = Universe(case['bp'])
    out.adjusted += U.adjusted
    M = U.model
    made = []
    for regop in case['regs']:
        if regop[0] == 'relp':
            _, which, ppick, label = regop
            r, req, prov0, name = made[which % len(made)]
            req = list(req)
            prov = U.provs[ppick % len(U.provs)]
        elif regop[0] == 'rel':
            _, r, which, pos, pick, ppick, keepprov, label = regop
            r0, req0, prov0, name = made[which % len(made)]
            r = r % len(U.regs) if pick % 3 == 0 else r0
            req = list(req0)
            if req:
                pos = pos % len(req)
                if req[pos] is None or pick % 5 == 4:
                    pool = U.all_lookup_specs() + [None]
                else:
                    # an ancestor of the key (more general), or None
                    pool = [s for s in req[pos].__sro__
                            if s in U.ifaces or s is req[pos]] + [None]
                req[pos] = pool[pick % len(pool)]
            if keepprov:
                prov = prov0
            else:
                rel = [q for q in U.provs if q.isOrExtends(prov0) or
                       prov0.isOrExtends(q)]
                prov = rel[ppick % len(rel)]
        else:
            r, reqrefs, p, name, label = regop
            r = r % len(U.regs)
            req = [U.spec(ref) for ref in reqrefs]
            prov = U.prov(p)
        v = Val(label)
        U.regs[r].register(req, prov, name, v)
        M.register(r, req, prov, name, v)
        made.append((r, req, prov, name))

    if case.get('recreate'):
        out.tag('lookup_objects_recreated')
        for reg in U.regs:
            reg._createLookup()
        for reg in U.regs:
            reg.__bases__ = reg.__bases__
            reg._v_lookup.changed(reg)

    DEFAULT = object()
    for lk in case['lookups']:
        if lk[0] == 'derived':
            _, r, which, picks, ppick, othername = lk
            r0, req0, prov0, name0 = made[which % len(made)]
            # look up from the registry itself or one that has it in its chain
            below = [x for x in range(len(U.regs)) if r0 in M.ro(x)]
            r = below[r % len(below)]
            required = []
            for k, key in enumerate(req0):
                pool = U.descendants_of(key)
                required.append(pool[picks[k % len(picks)] % len(pool)])
            anc = U.prov_ancestors(prov0)
            provided = anc[ppick % len(anc)]
            name = name0 if not othername else \
                [n for n in NAMES if n != name0][0]
        else:
            _, r, refs, p, name = lk
            r = r % len(U.regs)
            required = [U.spec(ref) or U.ifaces[0] for ref in refs]
            provided = U.prov(p)
        adm = M.admissible(r, required, provided, name)
        app = M.applicable(r, required, provided, name)
        if len({id(a[2]) for a in app}) >= 2:
            out.nontrivial = True
            ranks = sorted(a[0] for a in app)
            if ranks[0][0] != ranks[1][0]:
                out.tag('decided_by_registry')
            elif ranks[0] != ranks[1]:
                diff = [i for i in range(1, len(ranks[0]))
                        if ranks[0][i] != ranks[1][i]][0]
                out.tag('decided_by_position_%d' % (diff - 1))
            else:
                out.tag('decided_by_provided' if len(adm) == 1
                        else 'ambiguous_provided')
        out.tag('applicable_%d' % min(len(app), 3))
        reg = U.regs[r]
        out.checks += 1
        what = 'registry %d (%s) lookup(%s, %s, %r)' % (
            r, U.flavours[r], [U.describe(s) for s in required],
            provided.__name__, name)

        def judge(got, entry):
            if not adm:
                if got is not DEFAULT:
                    out.fail('not-default', '%s via %s returned %r, nothing '
                             'is applicable' % (what, entry, got))
                    return False
            elif len(adm) == 1:
                if got is not adm[0]:
                    out.fail('wrong-winner', '%s via %s returned %r, expected '
                             '%r; applicable (rank, provided, value): %r' % (
                                 what, entry, got, adm[0],
                                 [(a[0], a[1].__name__, a[2]) for a in app]))
                    return False
            elif not any(got is a for a in adm):
                out.fail('not-admissible', '%s via %s returned %r, admissible '
                         '%r' % (what, entry, got, adm))
                return False
            return True

        if not judge(reg.lookup(required, provided, name, DEFAULT), 'lookup'):
            return
        if not judge(reg.lookup(tuple(required), provided, name=name,
                                default=DEFAULT), 'lookup (again)'):
            return
        if len(required) == 1:
            if not judge(reg.lookup1(required[0], provided, name, DEFAULT),
                         'lookup1'):
                return
        if not adm and reg.lookup(required, provided, name) is not None:
            out.fail('not-default', '%s without default is not None' % what)
            return

    # registered() finds exactly the exact keys
    for r, req, prov, name in made:
        want = M.registered(r, req, prov, name)
        got = U.regs[r].registered(req, prov, name)
        out.checks += 1
        if got is not want:
            out.fail('registered', 'registered(%r) is %r, expected %r' % (
                (r, [U.describe(s) for s in req], prov.__name__, name), got,
                want))
            return
        # never finds inherited keys: query below in the chain / with a
        # more specific spec
        for x in range(len(U.regs)):
            if x != r and r in M.ro(x):
                w = M.registered(x, req, prov, name)
                if U.regs[x].registered(req, prov, name) is not w:
                    out.fail('registered-inherited', 'registry %d reports a '
                             'registration of base %d as its own' % (x, r))
                    return
