"""C10 The C accelerator is observationally equivalent to the Python
reference."""
import json
import os
import subprocess
import sys

from hypothesis import strategies as st

from vlib import c10prog
from vlib.core import uniq

RULE = ('programs (<=60 ops) over the union of the other checks\' '
        'vocabularies: declarations, specification queries, comparison / '
        'hashing / sorting against specs, None and foreign objects, '
        'adaptation calls (all __conform__ variants, registry hooks, custom '
        'and inherited __adapt__), interface rebasing, registry mutation '
        '(register / unregister / subscribe / unsubscribe / rebuild / '
        '__bases__) and every lookup entry point with defaults and '
        'non-string names, super proxies (plain and of a user-defined '
        'subclass of super), builtins, functions, objects whose '
        '__provides__ is None / a spec / raises, __providedBy__ that raises '
        'or is junk; the same program is executed by this worker '
        '(PURE_PYTHON=1) and by a persistent peer process (C accelerator) '
        'and the traces (canonical value or exception type per op) are '
        'compared entry by entry; non-trivial = the program reaches a C fast '
        'path with a warm cache or a fallback (repeated lookup of a key, odd '
        'object, custom __adapt__, foreign comparison, bad name); distinct '
        'by SHA-1')

CRASH_IS_VIOLATION = True
IDX = st.sampled_from([0, 0, 0, 1, 1, 1, 2, 2, 3, 4, 5])
ODD = ['int', 'str', 'none', 'object', 'func', 'list', 'builtin_cls',
       'module', 'provides_none', 'provides_spec', 'provides_raises',
       'provides_attrerror', 'providedBy_raises', 'providedBy_attrerror',
       'providedBy_junk', 'slots', 'slots_provides',
       'pb_attrerror_provides_raises',
       'conform_prop_valueerror', 'conform_prop_attrerror',
       'conform_typeerror', 'named_none', 'named_int', 'named_like_I0',
       'iface_noname', 'providedBy_proxy']

_peer = {'proc': None}


def configs(tier, seed):
    n = 500 if tier == 'quick' else 4000
    shards = 1 if tier == 'quick' else 6
    out = [{'name': 'py-vs-c-%d' % s, 'impl': 'py', 'mode': 'hyp', 'n': n,
            'shard': s, 'shrink_calls': 120} for s in range(shards)]
    out.append({'name': 'py-vs-c-sweep', 'impl': 'py', 'mode': 'enum',
                'no_regress': True})
    return out


STD_SETUP = {
    'ifaces': [{'bases': [], 'adapt': None}, {'bases': [0], 'adapt': None},
               {'bases': [], 'adapt': 'value'}, {'bases': [2],
                                                 'adapt': 'helper'},
               {'bases': [], 'adapt': 'super'}, {'bases': [], 'adapt': 'none'}],
    'classes': [{'bases': [], 'implements': [0], 'only': False,
                 'conform': None},
                {'bases': [0], 'implements': [1], 'only': False,
                 'conform': 'none'},
                {'bases': [1], 'implements': [], 'only': True,
                 'conform': 'value'},
                {'bases': [], 'implements': [0], 'only': False,
                 'conform': 'attrerror'}],
    'insts': [{'cls': 0, 'direct': []}, {'cls': 1, 'direct': [1]},
              {'cls': 2, 'direct': []}, {'cls': 3, 'direct': []}],
    'regs': [{'flavour': 'plain', 'bases': []},
             {'flavour': 'verifying', 'bases': [0]}],
}


def enumerate_cases(cfg):
    """every odd / ordinary object x every single-object operation, with
    registrations in place and every call made twice (cold and warm)"""
    objs = [['x', k] for k in ODD] + [['o', 0], ['o', 1], ['o', 2], ['o', 3],
                                      ['c', 0], ['c', 2], ['i', 0],
                                      ['s', 1, 0], ['s', 2, 1],
                                      ['S', 1, 0], ['S', 2, 1]]
    base = [['register', 0, [['R']], ['I', 0], '', 0, False],
            ['register', 1, [['I', 0]], ['I', 1], '', 1, False],
            ['register', 0, [['C', 0]], ['I', 0], 'a', 2, True],
            ['subscribe', 0, [['R']], ['I', 0], 3, False],
            ['subscribe', 1, [['I', 0]], ['N'], 4, False]]
    for hooks in ([], [1], ['none', 'h1', 'h2'], ['raise', 'h1'],
                  ['none', 1, 'raise']):
        for ob in objs:
            ops = list(base) + [['hook', hooks]]
            single = []
            single.append(['providedBy', ob])
            single.append(['getObjectSpecification', ob])
            single.append(['implementedBy', ob])
            single.append(['directlyProvidedBy', ob])
            for i in (['I', 0], ['I', 1], ['R'], ['C', 0], ['E']):
                single.append(['iface_providedBy', i, ob])
                single.append(['iface_implementedBy', i, ob])
            for i in range(6):
                for alt in ('absent', 'value', 'none'):
                    single.append(['adapt', i, ob, alt])
                single.append(['adapt_direct', i, ob])
            for r in (0, 1):
                for nm in ('', 'a', ['bad', 0], ['bad', 2]):
                    for dflt in (True, False):
                        single.append(['queryAdapter', r, [ob], ['I', 0], nm,
                                       dflt])
                        single.append(['adapter_hook', r, [ob], ['I', 1], nm,
                                       dflt])
                        single.append(['queryMultiAdapter', r, [ob, ['o', 0]],
                                       ['I', 0], nm, dflt])
                single.append(['subscribers', r, [ob], ['I', 0], '', True])
                single.append(['subscribers', r, [ob], ['N'], '', True])
            for cmpop in ('<', '==', '!=', '>='):
                single.append(['cmp', cmpop, ['I', 0], ob])
                single.append(['cmp', cmpop, ['C', 0], ob])
            for op in single:
                ops.append(op)
                ops.append(op)
            ops.append(['directlyProvides', ob, [1]])
            ops.append(['providedBy', ob])
            ops.append(['alsoProvides', ob, [0]])
            ops.append(['providedBy', ob])
            ops.append(['noLongerProvides', ob, [0]])
            ops.append(['providedBy', ob])
            yield {'setup': STD_SETUP, 'ops': ops}
    # an interface renamed after it was hashed, declared and registered
    for i in (0, 1):
        ops = list(base) + [
            ['providedBy', ['o', 1]], ['hash_eq', ['I', 0], ['I', 1]],
            ['lookup', 1, [['I', 1]], ['I', 0], '', True],
            ['queryAdapter', 1, [['o', 1]], ['I', 0], '', True],
            ['rename', i]]
        for _ in (0, 1):
            ops += [['hash_eq', ['I', i], ['I', 1 - i]],
                    ['hash_eq', ['I', i], ['I', i]],
                    ['iface_providedBy', ['I', i], ['o', 1]],
                    ['iface_implementedBy', ['I', i], ['c', 1]],
                    ['contains', ['C', 1], ['I', i]],
                    ['isOrExtends', ['I', 1], ['I', 0]],
                    ['sorted', [['I', 0], ['I', 1], ['I', 2]]],
                    ['lookup', 1, [['I', 1]], ['I', 0], '', True],
                    ['lookup1', 0, [['I', i]], ['I', 0], '', True],
                    ['queryAdapter', 1, [['o', 1]], ['I', 0], '', True],
                    ['subscriptions', 1, [['I', 1]], ['I', 0], '', True],
                    ['register', 0, [['I', i]], ['I', i], 'a', 11, False],
                    ['registered', 0, [['I', i]], ['I', i], 'a'],
                    ['classImplements', ['c', 3], [i]],
                    ['providedBy', ['o', 3]], ['adapt', i, ['o', 3],
                                               'absent']]
        yield {'setup': STD_SETUP, 'ops': ops}
    # the first call a registry serves after something above it changed,
    # through every entry point (a verifying registry has to notice by
    # itself; seed C10b): warm the entry point, change the base, call again
    setup2 = dict(STD_SETUP)
    setup2['regs'] = [{'flavour': 'plain', 'bases': []},
                      {'flavour': 'verifying', 'bases': [0]},
                      {'flavour': 'verifying', 'bases': [1]},
                      {'flavour': 'plain', 'bases': [0]}]

    def call(entry, r):
        if entry in ('lookup', 'lookup1', 'lookupAll', 'names',
                     'subscriptions'):
            return [entry, r, [['I', 0]], ['I', 0], '', True]
        if entry == 'queryMultiAdapter':
            return [entry, r, [['o', 0]], ['I', 0], '', True]
        return [entry, r, [['o', 0]], ['I', 0], '', True]
    changes = [
        [['register', 0, [['I', 0]], ['I', 0], '', 7, False]],
        [['unregister', 0, [['I', 0]], ['I', 0], '', None]],
        [['subscribe', 0, [['I', 0]], ['I', 0], 8, False]],
        [['unsubscribe', 0, [['I', 0]], ['I', 0], None]],
        [['rebuild', 0], ['register', 0, [['I', 0]], ['I', 0], '', 9,
                          False]],
        [['regbases', 1, []]],
        [['regbases', 1, [3]]],
        [['register', 1, [['I', 0]], ['I', 1], '', 10, False]],
        [['classImplements', ['c', 0], [1]]],
        [['directlyProvides', ['o', 0], [1]]],
    ]
    for entry in ('lookup', 'lookup1', 'lookupAll', 'names', 'subscriptions',
                  'queryAdapter', 'adapter_hook', 'queryMultiAdapter',
                  'subscribers'):
        for r in (1, 2, 3):
            for change in changes:
                ops = [['register', 0, [['I', 0]], ['I', 0], '', 1, False],
                       ['register', 0, [['I', 1]], ['I', 0], '', 2, False],
                       ['subscribe', 0, [['I', 0]], ['I', 0], 3, False],
                       call(entry, r), call(entry, r)]
                ops += change
                ops += [call(entry, r), call(entry, r), call('lookup', r),
                        call(entry, r)]
                yield {'setup': setup2, 'ops': ops}


def objref():
    return st.one_of(
        st.tuples(st.just('o'), IDX).map(list),
        st.tuples(st.just('o'), IDX).map(list),
        st.tuples(st.just('c'), IDX).map(list),
        st.tuples(st.just('i'), IDX).map(list),
        st.tuples(st.just('s'), IDX, st.integers(0, 3)).map(list),
        st.tuples(st.just('S'), IDX, st.integers(0, 3)).map(list),
        st.tuples(st.just('x'), st.sampled_from(ODD)).map(list),
        st.tuples(st.just('x'), st.sampled_from(ODD)).map(list))


def specref(allow_none=False):
    opts = [st.tuples(st.just('I'), IDX).map(list),
            st.tuples(st.just('I'), IDX).map(list),
            st.tuples(st.just('C'), IDX).map(list),
            st.tuples(st.just('O'), IDX).map(list),
            st.tuples(st.just('S'), IDX, st.integers(0, 3)).map(list),
            st.just(['R']), st.just(['E'])]
    if allow_none:
        opts.append(st.just(['N']))
    return st.one_of(*opts)


def ifaceref():
    return st.tuples(st.just('I'), IDX).map(list)


name_or_bad = st.one_of(st.sampled_from(c10prog.NAMES + ['', '']),
                        st.tuples(st.just('bad'),
                                  st.integers(0, len(c10prog.BADNAMES) - 1)
                                  ).map(list))
plain_name = st.sampled_from(c10prog.NAMES + [''])


@st.composite
def op_strategy(draw):
    k = draw(st.sampled_from(
        ['providedBy', 'implementedBy', 'directlyProvidedBy',
         'getObjectSpecification',
         'iface_providedBy', 'iface_providedBy', 'iface_implementedBy',
         'isOrExtends', 'extends', 'spec_call', 'sro', 'iter', 'contains',
         'add', 'sub', 'cmp', 'cmp', 'hash_eq', 'sorted', 'classImplements',
         'classImplementsOnly', 'classImplementsFirst', 'directlyProvides',
         'alsoProvides', 'noLongerProvides', 'declaration', 'rebase',
         'rename',
         'adapt', 'adapt', 'adapt', 'adapt_direct', 'hook', 'register',
         'register', 'register', 'unregister', 'subscribe', 'subscribe',
         'unsubscribe', 'registered', 'subscribed', 'rebuild',
         'allRegistrations', 'regbases', 'lookup', 'lookup', 'lookup',
         'lookup1', 'lookup1', 'lookupAll', 'names', 'subscriptions',
         'queryAdapter', 'queryAdapter', 'adapter_hook', 'queryMultiAdapter',
         'subscribers']))
    ilist = st.lists(IDX, min_size=1, max_size=2)
    if k in ('providedBy', 'implementedBy', 'directlyProvidedBy',
             'getObjectSpecification'):
        return [k, draw(objref())]
    if k in ('iface_providedBy', 'iface_implementedBy'):
        return [k, draw(specref()), draw(objref())]
    if k in ('isOrExtends', 'spec_call'):
        return [k, draw(specref()), draw(specref(True))]
    if k == 'extends':
        return [k, draw(specref()), draw(specref(True)), draw(st.booleans())]
    if k in ('sro', 'iter'):
        return [k, draw(specref())]
    if k == 'rename':
        return [k, draw(IDX)]
    if k == 'contains':
        return [k, draw(st.one_of(
            st.tuples(st.just('C'), IDX).map(list),
            st.tuples(st.just('O'), IDX).map(list), st.just(['E']))),
            draw(ifaceref())]
    if k in ('add', 'sub'):
        d = st.one_of(st.tuples(st.just('C'), IDX).map(list),
                      st.tuples(st.just('O'), IDX).map(list), st.just(['E']))
        return [k, draw(d), draw(st.one_of(d, ifaceref()))]
    if k == 'cmp':
        a = draw(st.one_of(specref(), specref(True)))
        b = draw(st.one_of(specref(True), specref(True),
                           st.tuples(st.just('x'),
                                     st.sampled_from(['int', 'str', 'object',
                                                      'func', 'builtin_cls',
                                                      'none'])).map(list),
                           st.tuples(st.just('c'), IDX).map(list)))
        if a == ['N']:
            a = ['R']
        return [k, draw(st.sampled_from(['<', '<=', '>', '>=', '==', '!='])),
                a, b]
    if k == 'hash_eq':
        return [k, draw(specref()), draw(specref())]
    if k == 'sorted':
        return [k, draw(st.lists(specref(True), min_size=2, max_size=5))]
    if k in ('classImplements', 'classImplementsOnly',
             'classImplementsFirst'):
        return [k, ['c', draw(IDX)], draw(ilist)]
    if k in ('directlyProvides', 'alsoProvides', 'noLongerProvides'):
        return [k, draw(st.one_of(st.tuples(st.just('o'), IDX).map(list),
                                  st.tuples(st.just('c'), IDX).map(list))),
                draw(ilist)]
    if k == 'declaration':
        return [k, draw(st.lists(specref(), max_size=3))]
    if k == 'rebase':
        return [k, draw(IDX), draw(st.lists(IDX, max_size=2))]
    if k == 'adapt':
        return [k, draw(IDX), draw(objref()),
                draw(st.sampled_from(['absent', 'value', 'none']))]
    if k == 'adapt_direct':
        return [k, draw(IDX), draw(objref())]
    if k == 'hook':
        return [k, draw(st.lists(st.one_of(
            IDX, st.sampled_from(['none', 'raise', 'h1', 'h2'])),
            max_size=3))]
    rkey = st.lists(specref(True), max_size=2)
    if k == 'register':
        return [k, draw(IDX), draw(rkey), draw(ifaceref()),
                draw(name_or_bad), draw(st.integers(0, 4)),
                draw(st.booleans())]
    if k == 'unregister':
        return [k, draw(IDX), draw(rkey), draw(ifaceref()), draw(plain_name),
                draw(st.one_of(st.none(), st.integers(0, 4)))]
    if k == 'registered':
        return [k, draw(IDX), draw(rkey), draw(ifaceref()), draw(plain_name)]
    if k == 'subscribe':
        return [k, draw(IDX), draw(rkey),
                draw(st.one_of(ifaceref(), st.just(['N']))),
                draw(st.integers(0, 4)), draw(st.booleans())]
    if k in ('unsubscribe', 'subscribed'):
        return [k, draw(IDX), draw(rkey),
                draw(st.one_of(ifaceref(), st.just(['N']))),
                draw(st.one_of(st.none(), st.integers(0, 4)))
                if k == 'unsubscribe' else draw(st.integers(0, 4))]
    if k in ('rebuild', 'allRegistrations'):
        return [k, draw(IDX)]
    if k == 'regbases':
        return [k, draw(IDX), draw(st.lists(IDX, max_size=2))]
    if k in ('lookup', 'lookup1', 'lookupAll', 'names', 'subscriptions'):
        prov = draw(ifaceref())
        if k == 'subscriptions' and draw(st.integers(0, 3)) == 0:
            prov = ['N']
        return [k, draw(IDX), draw(st.lists(specref(), max_size=2)), prov,
                draw(name_or_bad), draw(st.booleans()), draw(CALL_FORM)]
    prov = draw(ifaceref())
    if k == 'subscribers' and draw(st.integers(0, 3)) == 0:
        prov = ['N']
    return [k, draw(IDX), draw(st.lists(objref(), max_size=2)), prov,
            draw(name_or_bad), draw(st.booleans()), draw(CALL_FORM)]


# 9 = positional call, k < 9 = first k arguments positional, rest by keyword
CALL_FORM = st.sampled_from([9, 9, 9, 0, 1, 2])


@st.composite
def program(draw):
    nI = draw(st.integers(2, 6))
    ifaces = []
    for i in range(nI):
        k = min(draw(st.integers(0, 2)), i)
        ifaces.append({
            'bases': draw(st.lists(st.integers(0, i - 1), min_size=k,
                                   max_size=k, unique=True)) if k else [],
            'adapt': draw(st.sampled_from([None] * 6 + ['value', 'none',
                                                        'super', 'helper']))})
    classes = []
    for c in range(draw(st.integers(1, 4))):
        classes.append({
            'bases': draw(st.lists(st.integers(0, c - 1), max_size=2,
                                   unique=True)) if c else [],
            'implements': draw(st.lists(IDX, max_size=2)),
            'only': draw(st.integers(0, 6)) == 0,
            'conform': draw(st.sampled_from([None] * 6 + ['value', 'none',
                                                          'raise',
                                                          'attrerror']))})
    insts = [{'cls': draw(IDX), 'direct': draw(st.lists(IDX, max_size=2))}
             for _ in range(draw(st.integers(1, 3)))]
    regs = [{'flavour': draw(st.sampled_from(['plain', 'verifying'])),
             'bases': draw(st.lists(st.integers(0, 2), max_size=2,
                                    unique=True))}
            for _ in range(draw(st.integers(1, 3)))]
    ops = [draw(op_strategy()) for _ in range(draw(st.integers(5, 45)))]
    # repeat some lookups right away (warm caches) and echo earlier queries
    # later in the program (after whatever mutations came in between)
    QUERY = ('lookup', 'lookup1', 'queryAdapter', 'adapter_hook',
             'lookupAll', 'names', 'subscriptions', 'queryMultiAdapter',
             'subscribers', 'providedBy', 'iface_providedBy', 'adapt')
    extra = []
    for op in ops:
        extra.append(op)
        if op[0] in QUERY and draw(st.booleans()):
            extra.append(op)
        if len(extra) > 3 and draw(st.integers(0, 3)) == 0:
            old = extra[draw(st.integers(0, len(extra) - 1))]
            if old[0] in QUERY:
                extra.append(old)
    # cache scenarios: query, mutate exactly that key (here or in a base
    # registry), query again through the same entry point
    for _ in range(draw(st.integers(0, 3))):
        r = draw(IDX)
        key = draw(st.lists(specref(), min_size=1, max_size=1))
        okey = [draw(st.tuples(st.just('o'), IDX).map(list))]
        prov = draw(ifaceref())
        nm = draw(plain_name)
        entry = draw(st.sampled_from(['lookup', 'lookup1', 'lookupAll',
                                      'names', 'subscriptions',
                                      'queryAdapter', 'adapter_hook',
                                      'queryMultiAdapter', 'subscribers']))
        if entry in ('queryAdapter', 'adapter_hook', 'queryMultiAdapter',
                     'subscribers'):
            q = [entry, r, okey, prov, nm, True]
            rk = [['O', okey[0][1]]]
        else:
            q = [entry, r, key, prov, nm, True]
            rk = key
        extra.append(q)
        for _m in range(draw(st.integers(1, 2))):
            how = draw(st.sampled_from(['register', 'register', 'subscribe',
                                        'unregister', 'unsubscribe']))
            rr = draw(st.one_of(st.just(r), IDX, st.just(['top', r]),
                                st.just(['top', r])))
            if how == 'register':
                extra.append(['register', rr, rk, prov, nm,
                              draw(st.integers(0, 4)), False])
            elif how == 'subscribe':
                extra.append(['subscribe', rr, rk, prov,
                              draw(st.integers(0, 4)), False])
            elif how == 'unregister':
                extra.append(['unregister', rr, rk, prov, nm, None])
            else:
                extra.append(['unsubscribe', rr, rk, prov, None])
            extra.append(q)
    return {'setup': {'ifaces': ifaces, 'classes': classes, 'insts': insts,
                      'regs': regs}, 'ops': extra[:90]}


def strategy(cfg):
    return program()


def _start_peer():
    env = dict(os.environ)
    env['VERIF_IMPL'] = 'c'
    env.pop('PURE_PYTHON', None)
    p = subprocess.Popen([sys.executable, '-m', 'vlib.c10peer'],
                         stdin=subprocess.PIPE, stdout=subprocess.PIPE,
                         env=env, text=True, bufsize=1)
    hello = json.loads(p.stdout.readline())
    assert hello == {'ready': 'c'}, hello
    _peer['proc'] = p
    return p


def _peer_trace(prog):
    p = _peer['proc']
    if p is None or p.poll() is not None:
        p = _start_peer()
    try:
        p.stdin.write(json.dumps(prog) + '\n')
        p.stdin.flush()
        line = p.stdout.readline()
    except (BrokenPipeError, OSError):
        line = ''
    if not line:
        rc = p.wait()
        _peer['proc'] = None
        return None, 'peer process (C accelerator) died with status %r' % rc
    msg = json.loads(line)
    if 'error' in msg:
        return None, 'peer harness error: ' + msg['error']
    return msg['trace'], None


WARM_OPS = {'lookup', 'lookup1', 'queryAdapter', 'adapter_hook', 'lookupAll',
            'subscriptions'}


def run_case(case, cfg, out):
    from zope.interface.interface import SpecificationBase
    assert SpecificationBase.__module__ == 'zope.interface.interface'
    prog = dict(case)
    prog['tag'] = uniq('p')
    mine = c10prog.run_program(prog)
    mine = json.loads(json.dumps(mine, default=repr))
    theirs, err = _peer_trace(prog)
    out.checks += len(mine)
    if theirs is None:
        if err.startswith('peer harness'):
            raise RuntimeError(err)
        out.fail('c-crash', err)
        return
    ops = prog['ops']
    seen = set()
    for op in ops:
        key = json.dumps(op)
        if op[0] in WARM_OPS and key in seen:
            out.nontrivial = True
        seen.add(key)
        if any(isinstance(x, list) and x[:1] == ['x'] for x in op) or \
                any(isinstance(x, list) and x[:1] == ['bad'] for x in op) or \
                op[0] in ('cmp', 'adapt'):
            out.nontrivial = True
    if len(mine) != len(theirs):
        out.fail('trace-length', '%d vs %d' % (len(mine), len(theirs)))
        return
    for k, (a, b) in enumerate(zip(mine, theirs)):
        if a != b:
            out.tag('diverge_' + ops[k][0])
            out.fail(_signature(ops[k], a, b),
                     'op %d %r: PURE_PYTHON gives %r, C accelerator gives %r'
                     % (k, ops[k], a, b))
            return


def _signature(op, a, b):
    """Root-cause bucket of a divergence (used for known findings)."""
    return 'diverge-' + op[0]


def _walk(op):
    for x in op:
        if isinstance(x, list):
            yield x
            yield from _walk(x)
