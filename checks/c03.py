"""C03 Resolution orders are valid linearizations and equal C3 whenever C3
exists; strict mode / is_consistent decide exactly C3 existence."""
import gc
import itertools
import os

from hypothesis import strategies as st

from vlib import models
from vlib.core import uniq

RULE = ('ordered inheritance DAGs (2-10 nodes, <=3 bases, node 0 = Interface) '
        'built as interfaces / mixed specifications / plain objects with '
        '__bases__, plus rebasing histories, in default, STRICT_IRO and '
        'USE_LEGACY_IRO processes and both implementations; non-trivial = '
        'some node has >=2 bases sharing a non-root ancestor (diamond) or the '
        'hierarchy is inconsistent; distinct by SHA-1 of the case JSON')

GC_EVERY = 50


def configs(tier, seed):
    out = []
    n = 2500 if tier == 'quick' else 12000
    shards = 1 if tier == 'quick' else 3
    for impl in ('c', 'py'):
        for cname, env in (('default', {}),
                           ('strict', {'ZOPE_INTERFACE_STRICT_IRO': '1'}),
                           ('legacy', {'ZOPE_INTERFACE_USE_LEGACY_IRO': '1'})):
            for sh in range(shards):
                if cname == 'legacy' and sh:
                    continue
                out.append({'name': '%s-%s-%d' % (impl, cname, sh),
                            'impl': impl, 'env': env, 'n': n,
                            'mode': 'hyp', 'cfgname': cname, 'shard': sh})
    # all ordered DAGs of 4 (quick) / 5 (thorough) non-root nodes
    k = 4 if tier == 'quick' else 5
    for impl in ('c', 'py'):
        for cname, env in (('default', {}),
                           ('strict', {'ZOPE_INTERFACE_STRICT_IRO': '1'})):
            if tier == 'quick' and impl == 'py' and cname == 'strict':
                continue
            out.append({'name': '%s-%s-enum%d' % (impl, cname, k),
                        'impl': impl, 'env': env, 'mode': 'enum',
                        'cfgname': cname, 'enum_nodes': k,
                        'no_regress': True})
    return out


def coverage_extra(tier):
    k = 4 if tier == 'quick' else 5
    return {'partitions': {
        'all ordered DAGs with %d non-root nodes, <=3 bases' % k:
            {'exhaustive': True}}}


# --- generators -----------------------------------------------------------

@st.composite
def dag(draw, lo=2, hi=9, typed=False):
    n = draw(st.integers(lo, hi))
    bases = [[]]
    kinds = ['I']
    for i in range(1, n + 1):
        kind = 'I'
        if typed:
            kind = draw(st.sampled_from('IIISD'))
        cands = [j for j in range(1, i)
                 if kind != 'I' or kinds[j] == 'I']
        k = draw(st.integers(0, min(3, len(cands))))
        bs = draw(st.lists(st.sampled_from(cands), min_size=k, max_size=k,
                           unique=True)) if k else []
        if draw(st.integers(0, 11)) == 0:
            bs.insert(draw(st.integers(0, len(bs))), 0)
        bases.append(bs)
        kinds.append(kind)
    return bases, kinds


@st.composite
def case_strategy(draw, cfgname):
    kind = draw(st.sampled_from(['iface', 'iface', 'spec', 'plain']))
    bases, kinds = draw(dag(typed=(kind == 'spec')))
    case = {'kind': kind, 'bases': bases}
    if kind == 'spec':
        case['kinds'] = ''.join(kinds)
    if kind != 'plain':
        nre = draw(st.integers(0, 5))
        case['rebases'] = [
            [draw(st.integers(1, 50)),
             draw(st.lists(st.integers(0, 50), min_size=0, max_size=3)),
             draw(st.sampled_from([0, 0, 0, 1, 2, 2, 3]))]
            for _ in range(nre)]
    return case


def strategy(cfg):
    return case_strategy(cfg['cfgname'])


def enumerate_cases(cfg):
    k = cfg['enum_nodes']

    def choices(i):
        cands = list(range(0, i))
        out = [[]]
        for size in (1, 2, 3):
            out.extend(list(p) for p in itertools.permutations(cands, size))
        return out

    def rec(bases):
        i = len(bases)
        if i == k + 1:
            yield {'kind': 'iface', 'bases': [list(b) for b in bases]}
            return
        for ch in choices(i):
            bases.append(ch)
            yield from rec(bases)
            bases.pop()

    yield from rec([[]])


# --- oracle ---------------------------------------------------------------

class Plain:
    def __init__(self, name):
        self.name = name
        self.__bases__ = ()

    def __repr__(self):
        return self.name


def _diamond(bases, i):
    bs = bases[i]
    for a in range(len(bs)):
        for b in range(a + 1, len(bs)):
            if (models.reach(bases, bs[a]) & models.reach(bases, bs[b])) - {0}:
                return True
    return False


def _multi_path_dependent(bases, r):
    """Is there a node with >=2 distinct paths down to r?"""
    n = len(bases)
    count = {}

    def paths(x):
        if x == r:
            return 1
        if x in count:
            return count[x]
        count[x] = 0
        count[x] = sum(paths(b) for b in bases[x])
        return count[x]
    return any(paths(x) >= 2 for x in range(n) if x != r)


def run_case(case, cfg, out):
    from zope.interface import Interface
    from zope.interface import ro
    from zope.interface.declarations import Declaration
    from zope.interface.interface import InterfaceClass
    from zope.interface.interface import Specification
    IROE = ro.InconsistentResolutionOrderError

    cfgname = cfg.get('cfgname', 'default')
    strict_env = cfgname == 'strict'
    legacy_env = cfgname == 'legacy'
    assert bool(ro.C3.STRICT_IRO) == strict_env
    assert bool(ro.C3.USE_LEGACY_IRO) == legacy_env
    kind = case['kind']
    bases = [list(b) for b in case['bases']]
    n = len(bases)

    if kind == 'plain':
        return _run_plain(case, cfg, out, ro, IROE)

    kinds = case.get('kinds') or 'I' * n
    objs = [Interface]
    tag = uniq('c03_')

    def eff(b=None):
        # a specification without bases implicitly has the root as base
        b = b or bases
        return [list(x) if (x or j == 0) else [0] for j, x in enumerate(b)]

    def consistent(i, b=None):
        try:
            models.c3(eff(b), i, {})
            return True
        except models.Inconsistent:
            return False

    def make(i):
        bs = tuple(objs[j] for j in bases[i])
        name = '%s_%d_%s' % (tag, i, uniq('v'))
        if kinds[i] == 'I':
            return InterfaceClass(name, bs, {}, __module__='verif.c03')
        if kinds[i] == 'S':
            return Specification(bs)
        d = Declaration()
        d.__bases__ = bs
        return d

    for i in range(1, n):
        expect_raise = strict_env and not consistent(i)
        try:
            ob = make(i)
        except IROE as e:
            if not expect_raise:
                out.fail('strict-create-raised',
                         'creating node %d with bases %r raised although a C3 '
                         'order exists' % (i, bases[i]))
                return
            # construction instead of rejection: keep the first base only
            # The rejected object stays subscribed to its bases until it is
            # collected (it is part of a reference cycle); a later change of
            # one of them would re-compute the zombie and raise again.
            # (gc timing would decide).  Detach it deterministically.
            zombie = e.C
            for b in zombie.__bases__:
                try:
                    b.unsubscribe(zombie)
                except KeyError:
                    pass
            zombie = None
            bases[i] = bases[i][:1]
            out.adjusted += 1
            out.tag('strict_create_rejected')
            ob = make(i)
        else:
            if expect_raise:
                out.fail('strict-create-accepted',
                         'strict mode created node %d with bases %r for which '
                         'no C3 order exists' % (i, bases[i]))
                return
        objs.append(ob)

    index = {id(o): i for i, o in enumerate(objs)}

    def check_all(stage):
        memo = {}
        rawmemo = {}
        ebases = eff()
        for i in range(1, n):
            ob = objs[i]
            out.checks += 1
            sro = [index.get(id(x), -1) for x in ob.__sro__]
            probs = models.valid_linearization(bases, i, sro, root=0)
            if probs:
                out.fail('invalid-sro', '%s: node %d sro %r: %s (bases %r)' % (
                    stage, i, sro, probs, bases))
                continue
            iro = [index.get(id(x), -1) for x in ob.__iro__]
            want_iro = [j for j in sro if kinds[j] == 'I']
            if iro != want_iro:
                out.fail('iro-mismatch', '%s: node %d iro %r != %r' % (
                    stage, i, iro, want_iro))
            try:
                exp_eff = models.c3(ebases, i, memo)
                cons = True
            except models.Inconsistent:
                exp_eff = None
                cons = False
            try:
                cp = models.cpython_mro(bases, i, root=0)
            except models.Inconsistent:
                cp = None
            if cons:
                exp_noroot = [j for j in exp_eff if j != 0]
                assert exp_eff[-1] == 0
                assert cp == exp_noroot, ('oracle disagreement', bases, i, cp,
                                          exp_eff)
            else:
                assert cp is None, ('oracle disagreement', bases, i, cp)
            # ro.ro() and is_consistent() see the raw __bases__ graph, in
            # which the root is an ordinary node
            try:
                exp = models.c3(bases, i, rawmemo)
                cons_raw = True
            except models.Inconsistent:
                exp = None
                cons_raw = False
            try:
                cpr = models.cpython_mro(bases, i)
            except models.Inconsistent:
                cpr = None
            assert cpr == exp, ('oracle disagreement (raw)', bases, i, cpr, exp)
            if cons_raw != cons:
                # only possible when the root is listed explicitly in front
                # of another base: the two readings of "the hierarchy"
                # differ, only validity is demanded
                out.tag('root_ambiguous')
                continue
            if _diamond(bases, i) or not cons:
                out.nontrivial = True
            out.tag('consistent' if cons else 'inconsistent')
            if cons and not legacy_env:
                want = exp_noroot + [0]
                if sro != want:
                    out.fail('sro-not-c3', '%s: node %d sro %r, C3 is %r '
                             '(bases %r)' % (stage, i, sro, want, bases))
            # per-call strict
            try:
                r = ro.ro(ob, strict=True)
                r = [index.get(id(x), -1) for x in r]
                if not cons:
                    out.fail('strict-call-accepted',
                             '%s: ro.ro(node %d, strict=True) returned %r but '
                             'no C3 exists (bases %r)' % (stage, i, r, bases))
                elif not legacy_env and r != exp:
                    out.fail('strict-call-order',
                             '%s: ro.ro(node %d, strict=True) = %r, C3 is %r'
                             % (stage, i, r, exp))
            except IROE:
                if cons:
                    out.fail('strict-call-raised',
                             '%s: ro.ro(node %d, strict=True) raised but C3 '
                             'exists: %r (bases %r)' % (stage, i, exp, bases))
            ic = ro.is_consistent(ob)
            if bool(ic) != cons:
                out.fail('is-consistent', '%s: is_consistent(node %d) = %r, '
                         'C3 exists: %r (bases %r)' % (stage, i, ic, cons,
                                                       bases))

    check_all('built')
    if out.fails:
        return

    for step, reb in enumerate(case.get('rebases') or ()):
        node, newb = reb[0], reb[1]
        mode = reb[2] if len(reb) > 2 else 0
        i = 1 + node % (n - 1)
        desc = models.descendants(bases, i)
        cands = [j for j in range(0, n) if j not in desc and
                 (kinds[i] != 'I' or kinds[j] == 'I')]
        nb = []
        for x in newb:
            if not cands:
                break
            c = cands[x % len(cands)]
            if c not in nb:
                nb.append(c)
        if mode == 1:      # assign the same bases again
            nb = list(bases[i])
        elif mode == 2:    # reverse the local order
            nb = list(reversed(bases[i]))
        elif mode == 3:    # rotate
            nb = bases[i][1:] + bases[i][:1]
        out.tag('rebase_mode%d' % mode)
        bases[i] = nb
        all_cons = all(consistent(j) for j in range(1, n))
        expect_raise = strict_env and not all_cons
        out.tag('rebase')
        try:
            objs[i].__bases__ = tuple(objs[j] for j in nb)
        except IROE as e:
            if expect_raise:
                out.tag('strict_rebase_rejected')
                out.nontrivial = True
                return  # graph is now half-updated by contract
            if strict_env and _multi_path_dependent(bases, i):
                out.tag('strict_rebase_transient')
                out.fail('strict-rebase-transient',
                         'strict mode: %d.__bases__ = %r raised although the '
                         'resulting hierarchy is consistent (bases %r)' % (
                             i, nb, bases))
                return
            out.fail('rebase-raised', 'rebase %d -> %r raised %r although the '
                     'result is consistent (bases %r)' % (i, nb, e, bases))
            return
        else:
            if expect_raise:
                out.fail('strict-rebase-accepted',
                         'strict mode accepted rebase %d -> %r, result has no '
                         'C3 (bases %r)' % (i, nb, bases))
                return
        check_all('after rebase %d' % step)
        if out.fails:
            return


def _run_plain(case, cfg, out, ro, IROE):
    bases = [list(b) for b in case['bases']]
    n = len(bases)
    objs = [Plain('P%d' % i) for i in range(n)]
    for i in range(n):
        objs[i].__bases__ = tuple(objs[j] for j in bases[i])
    index = {id(o): i for i, o in enumerate(objs)}
    legacy_env = cfg.get('cfgname') == 'legacy'
    strict_env = cfg.get('cfgname') == 'strict'
    memo = {}
    for i in range(n):
        out.checks += 1
        try:
            exp = models.c3(bases, i, memo)
            cons = True
        except models.Inconsistent:
            exp = None
            cons = False
        try:
            cp = models.cpython_mro(bases, i)
        except models.Inconsistent:
            cp = None
        assert cp == exp, ('oracle disagreement', bases, i, cp, exp)
        if _diamond(bases, i) or not cons:
            out.nontrivial = True
        out.tag('plain_consistent' if cons else 'plain_inconsistent')
        # questions that carry their own strictness must not depend on the
        # process-wide setting (seed C03f): is_consistent() answers, it
        # never raises; ro(strict=False) always yields a linearization
        try:
            ic = ro.is_consistent(objs[i])
            if bool(ic) != cons:
                out.fail('is-consistent', 'plain: is_consistent(node %d) = '
                         '%r, C3 exists: %r (bases %r)' % (i, ic, cons,
                                                           bases))
        except IROE:
            out.fail('is-consistent-raised', 'plain: is_consistent(node %d) '
                     'raised; C3 exists: %r (bases %r)' % (i, cons, bases))
        try:
            r0 = [index[id(x)] for x in ro.ro(objs[i], strict=False)]
            probs = models.valid_linearization(bases, i, r0)
            if probs:
                out.fail('plain-invalid', 'ro.ro(node %d, strict=False) = '
                         '%r: %s (bases %r)' % (i, r0, probs, bases))
            elif cons and not legacy_env and r0 != exp:
                out.fail('plain-not-c3', 'ro.ro(node %d, strict=False) = %r, '
                         'C3 is %r (bases %r)' % (i, r0, exp, bases))
        except IROE:
            out.fail('plain-nonstrict-call-raised', 'ro.ro(node %d, '
                     'strict=False) raised; C3 exists: %r (bases %r)' % (
                         i, cons, bases))
        try:
            r = [index[id(x)] for x in ro.ro(objs[i])]
        except IROE:
            if not strict_env or cons:
                out.fail('plain-raised', 'ro.ro(node %d) raised; C3 exists=%r '
                         '(bases %r)' % (i, cons, bases))
            continue
        if strict_env and not cons:
            out.fail('plain-strict-accepted', 'strict process: ro.ro(node %d)'
                     ' returned %r, no C3 exists (bases %r)' % (i, r, bases))
            continue
        probs = models.valid_linearization(bases, i, r)
        if probs:
            out.fail('plain-invalid', 'ro.ro(node %d) = %r: %s (bases %r)' % (
                i, r, probs, bases))
            continue
        if cons and not legacy_env and r != exp:
            out.fail('plain-not-c3', 'ro.ro(node %d) = %r, C3 is %r '
                     '(bases %r)' % (i, r, exp, bases))
        try:
            r2 = [index[id(x)] for x in ro.ro(objs[i], strict=True)]
            if not cons:
                out.fail('plain-strict-call-accepted', 'node %d %r' % (i, r2))
            elif r2 != exp and not legacy_env:
                out.fail('plain-strict-call-order', 'node %d %r != %r' % (
                    i, r2, exp))
        except IROE:
            if cons:
                out.fail('plain-strict-call-raised', 'node %d (bases %r)' % (
                    i, bases))


def accepts(rec, cfg):
    want = (rec.get('config') or {}).get('cfgname')
    return want is None or want == cfg.get('cfgname')
