"""C18 Method descriptions mirror the described function's real signature."""
import inspect
import itertools

from hypothesis import strategies as st

from vlib.core import uniq

RULE = ('functions compiled from generated source: complete grid over '
        '(positional-only 0-2, positional-or-keyword 0-3, number of defaults, '
        '*args, keyword-only 0-2 with/without defaults, **kw) x routes '
        '(fromFunction, interface body, fromMethod on function / bound method, '
        'ABCInterfaceClass) plus Hypothesis-drawn parameter names, default '
        'values and function attributes; oracle inspect.signature; '
        'non-trivial = keyword-only or positional-only parameters present, or '
        'defaults together with *args/**kw; distinct by SHA-1 of the case')

EXHAUSTIVE = True
ROUTES = ['func', 'iface', 'method', 'bound', 'abc', 'verify']


def configs(tier, seed):
    out = []
    for impl in ('c', 'py'):
        out.append({'name': impl + '-grid', 'impl': impl, 'mode': 'enum'})
        out.append({'name': impl + '-hyp', 'impl': impl, 'mode': 'hyp',
                    'n': 1500 if tier == 'quick' else 40000})
    return out


def coverage_extra(tier):
    return {'partitions': {'signature grid x routes': {'exhaustive': True}}}


def _grid():
    for po in range(3):
        for pk in range(4):
            for nd in range(po + pk + 1):
                for va in (0, 1):
                    for ko in range(3):
                        for kod in ((0,) if ko == 0 else (0, 1)):
                            for kw in (0, 1):
                                yield po, pk, nd, va, ko, kod, kw


def enumerate_cases(cfg):
    for po, pk, nd, va, ko, kod, kw in _grid():
        for route in ROUTES:
            if nd == po + pk and route in ('method', 'bound', 'verify'):
                yield _mk(po, pk, nd, va, ko, kod, kw, route, True)
            if po == pk == 0 and va and route in ('method', 'bound', 'abc',
                                                  'verify'):
                # no named self at all: the instance arrives through *args
                # (pass-through wrappers; ABC methods written that way -
                # seed C18h)
                c = _mk(po, pk, nd, va, ko, kod, kw, route, False)
                c['starself'] = True
                yield c
            yield _mk(po, pk, nd, va, ko, kod, kw, route, False)


def _mk(po, pk, nd, va, ko, kod, kw, route, selfdef):
    if True:
        if True:
            return {
                'selfdef': selfdef,
                'po': ['p%d' % i for i in range(po)],
                'pk': ['a%d' % i for i in range(pk)],
                'ndef': nd,
                'defaults': [repr(i) for i in range(nd)],
                'va': 'args' if va else None,
                'ko': [['k%d' % i, bool(kod)] for i in range(ko)],
                'kw': 'kw' if kw else None,
                'route': route,
                'attrs': {},
            }


_ident = st.from_regex(r'[a-z_][a-z0-9_]{0,6}', fullmatch=True).filter(
    lambda s: s not in __import__('keyword').kwlist and s not in
    ('self', 'None', 'True', 'False', 'print'))

_default = st.one_of(
    st.integers(-5, 5).map(repr), st.just('None'), st.just('()'),
    st.text('abc', max_size=3).map(repr), st.just('(1, "x")'),
    st.just('1.5'), st.just('b"x"'))


@st.composite
def case_strategy(draw):
    names = draw(st.lists(_ident, min_size=9, max_size=9, unique=True))
    po = draw(st.integers(0, 2))
    pk = draw(st.integers(0, 3))
    nd = draw(st.integers(0, po + pk))
    ko = draw(st.integers(0, 2))
    it = iter(names)
    case = {
        'po': [next(it) for _ in range(po)],
        'pk': [next(it) for _ in range(pk)],
        'ndef': nd,
        'defaults': [draw(_default) for _ in range(nd)],
        'va': next(it) if draw(st.booleans()) else None,
        'ko': [[next(it), draw(st.booleans())] for _ in range(ko)],
        'kw': next(it) if draw(st.booleans()) else None,
        'route': draw(st.sampled_from(ROUTES)),
        'attrs': draw(st.dictionaries(_ident, st.integers(0, 3), max_size=3)),
    }
    if nd == po + pk and case['route'] in ('method', 'bound', 'verify'):
        # every positional has a default, so self may have one too
        case['selfdef'] = draw(st.booleans())
    return case


def strategy(cfg):
    return case_strategy()


def _source(case, with_self):
    parts = []
    pos = list(case['po']) + list(case['pk'])
    nd = case['ndef']
    defaults = [None] * (len(pos) - nd) + list(case['defaults'])
    rendered = []
    for n, d in zip(pos, defaults):
        rendered.append(n if d is None else '%s=%s' % (n, d))
    npo = len(case['po'])
    if with_self and not case.get('starself'):
        # self joins the positional-only group when there is one
        selfsrc = 'self=None' if case.get('selfdef') else 'self'
        if npo:
            rendered.insert(0, selfsrc)
            npo += 1
        else:
            parts.append(selfsrc)
    for k, r in enumerate(rendered):
        parts.append(r)
        if npo and k == npo - 1:
            parts.append('/')
    if case['va']:
        parts.append('*' + case['va'])
    elif case['ko']:
        parts.append('*')
    for n, hasdef in case['ko']:
        parts.append('%s=7' % n if hasdef else n)
    if case['kw']:
        parts.append('**' + case['kw'])
    return 'def meth(%s):\n    "doc"\n' % ', '.join(parts)


def run_case(case, cfg, out):
    from zope.interface import Interface
    from zope.interface.interface import InterfaceClass
    from zope.interface.interface import Method
    from zope.interface.interface import fromFunction
    from zope.interface.interface import fromMethod

    route = case['route']
    with_self = route in ('method', 'bound', 'abc', 'verify')
    src = _source(case, with_self)
    ns = {}
    exec(compile(src, '<c18>', 'exec'), ns)
    func = ns['meth']
    for k, v in case['attrs'].items():
        setattr(func, k, v)

    if case['ko'] or case['po'] or (case['ndef'] and (case['va'] or
                                                      case['kw'])):
        out.nontrivial = True
    out.tag('route_' + route)

    # oracle: inspect.signature of what is being described
    target = func
    if route == 'bound':
        cls = type('Holder', (), {'meth': func})
        target = cls().meth
        sig = inspect.signature(target)
    elif with_self:
        sig = inspect.signature(func)
        params = list(sig.parameters.values())
        if not case.get('starself'):
            params = params[1:]
        sig = sig.replace(parameters=params)
    else:
        sig = inspect.signature(func)
    P = inspect.Parameter
    positional = tuple(p.name for p in sig.parameters.values()
                       if p.kind in (P.POSITIONAL_ONLY,
                                     P.POSITIONAL_OR_KEYWORD))
    required = tuple(p.name for p in sig.parameters.values()
                     if p.kind in (P.POSITIONAL_ONLY, P.POSITIONAL_OR_KEYWORD)
                     and p.default is P.empty)
    optional = {p.name: p.default for p in sig.parameters.values()
                if p.kind in (P.POSITIONAL_ONLY, P.POSITIONAL_OR_KEYWORD)
                and p.default is not P.empty}
    varargs = next((p.name for p in sig.parameters.values()
                    if p.kind == P.VAR_POSITIONAL), None)
    kwargs = next((p.name for p in sig.parameters.values()
                   if p.kind == P.VAR_KEYWORD), None)
    want = {'positional': positional, 'required': required,
            'optional': optional, 'varargs': varargs, 'kwargs': kwargs}
    sigstr = []
    for n in positional:
        sigstr.append(n if n not in optional else '%s=%r' % (n, optional[n]))
    if varargs:
        sigstr.append('*' + varargs)
    if kwargs:
        sigstr.append('**' + kwargs)
    want_str = '(%s)' % ', '.join(sigstr)

    if route == 'func':
        m = fromFunction(func)
    elif route == 'iface':
        iface = InterfaceClass(uniq('IC18_'), (Interface,), {'meth': func},
                               __module__='verif.c18')
        m = iface['meth']
    elif route == 'method':
        cls = type('Holder', (), {'meth': func})
        m = fromMethod(cls.meth)
    elif route == 'bound':
        m = fromMethod(target)
    elif route == 'abc':
        import abc
        from zope.interface.common import ABCInterfaceClass
        from zope.interface.common import ABCInterface
        name = uniq('Abc')
        theabc = abc.ABCMeta(name, (), {'meth': func})
        iface = ABCInterfaceClass('I' + name, (ABCInterface,),
                                  {'abc': theabc})
        m = iface['meth']
    elif route == 'verify':
        # the description verify builds for an implementation: observe it
        # through a verification failure message is too indirect, so use
        # the same call verify makes for class attributes
        m = fromFunction(func, None, name='meth', imlevel=1)
    else:
        raise AssertionError(route)

    out.checks += 1
    if not isinstance(m, Method):
        out.fail('not-a-method', '%r -> %r' % (src, m))
        return
    got = m.getSignatureInfo()
    got_n = {'positional': tuple(got['positional']),
             'required': tuple(got['required']),
             'optional': dict(got['optional']),
             'varargs': got['varargs'], 'kwargs': got['kwargs']}
    if got_n != want:
        diff = [k for k in want if got_n[k] != want[k]]
        out.fail('siginfo-' + '+'.join(diff),
                 'route %s, %r: getSignatureInfo() = %r, inspect says %r' % (
                     route, src.split('\n')[0], got_n, want))
        return
    s = m.getSignatureString()
    if s != want_str:
        out.fail('sigstring', 'route %s, %r: getSignatureString() = %r, '
                 'expected %r' % (route, src.split('\n')[0], s, want_str))
    tags = set(m.getTaggedValueTags())
    if tags != set(case['attrs']):
        out.fail('tagged-values', 'tags %r != function attributes %r' % (
            tags, set(case['attrs'])))
    for k, v in case['attrs'].items():
        if m.queryTaggedValue(k) != v:
            out.fail('tagged-values', 'tag %s = %r, attribute %r' % (
                k, m.queryTaggedValue(k), v))
    if m.getDoc() != 'doc' and route != 'abc':
        out.fail('doc', 'doc %r' % m.getDoc())
