"""C13 Specifications pickle by reference and unpickle to the equivalent
live object."""
import gc
import pickle
import pickletools
import sys
import types

from hypothesis import strategies as st

from vlib.core import make_class
from vlib.core import uniq

RULE = ('synthetic importable modules (registered in sys.modules, unique '
        'name per case) populated from a blueprint: interfaces with marker '
        'doc strings and attributes, classes declared through every shape '
        '(none / implementer / implementer_only / classImplements(First|Only) '
        'after creation / inherited from 0-2 bases), implementer on a '
        'function, class-provides via provider and alsoProvides, instances '
        'with directlyProvides / alsoProvides, in a third of the cases '
        'classes re-declared afterwards; every pickle protocol 0-5; '
        'pickled: each interface, implementedBy(cls), cls.__provides__, '
        'ob.__provides__, ob, the empty declaration; oracle = identity / '
        'same interface sequence / equality+hash, no marker string and only '
        'global references in the byte stream; non-trivial = a class whose '
        'specification is not a plain implementer() (only / first / inherited '
        'from >=2 bases / function factory); distinct by SHA-1')

LOW_NT_OK = False
GC_EVERY = 10


# thorough tier: coverage-guided campaigns on top of the random ones
ATHERIS = [{'impl': 'py', 'n': 20000, 'name': 'py-atheris'},
           {'impl': 'c', 'n': 20000, 'name': 'c-atheris'}]


def configs(tier, seed):
    n = 1500 if tier == 'quick' else 20000
    return [{'name': impl + '-pickle', 'impl': impl, 'mode': 'hyp', 'n': n}
            for impl in ('c', 'py')]


SHAPES = ['none', 'implementer', 'implementer', 'implementer_only',
          'first_after', 'only_after', 'implements_after', 'only_twice',
          'oldstyle']


class _FalsyMeta(type):
    def __bool__(cls):
        return False

    def __len__(cls):
        return 0


@st.composite
def case_strategy(draw):
    nI = draw(st.integers(1, 5))
    ibases = []
    for i in range(nI):
        k = min(draw(st.integers(0, 2)), i)
        ibases.append(draw(st.lists(st.integers(0, i - 1), min_size=k,
                                    max_size=k, unique=True)) if k else [])
    ifl = st.lists(st.integers(0, nI - 1), max_size=3)
    classes = []
    for c in range(draw(st.integers(1, 4))):
        classes.append({
            'bases': draw(st.lists(st.integers(0, c - 1), max_size=2,
                                   unique=True)) if c else [],
            'shape': draw(st.sampled_from(SHAPES)),
            'ifaces': draw(ifl), 'ifaces2': draw(ifl),
            'provides': draw(st.one_of(st.none(), ifl)),
            'also': draw(st.one_of(st.none(), st.none(), ifl)),
            # a class that is false in a boolean context (its metaclass
            # defines __bool__ / __len__, as enum-like and registry
            # metaclasses do); subclasses inherit the metaclass (seed C13i)
            'falsy': draw(st.integers(0, 5)) == 0})
    funcs = [{'ifaces': draw(ifl)} for _ in range(draw(st.integers(0, 2)))]
    insts = []
    for _ in range(draw(st.integers(0, 4))):
        insts.append({'cls': draw(st.integers(0, len(classes) - 1)),
                      'direct': draw(st.one_of(st.none(), ifl)),
                      'also': draw(st.one_of(st.none(), ifl))})
    # classes re-declared after the instance declarations were made
    narrow = []
    if draw(st.integers(0, 2)) == 0:
        for _ in range(draw(st.integers(1, 2))):
            narrow.append({'cls': draw(st.integers(0, len(classes) - 1)),
                           'ifaces': draw(ifl),
                           'only': draw(st.integers(0, 3)) > 0})
    return {'ibases': ibases, 'classes': classes, 'funcs': funcs,
            'insts': insts, 'dotted': draw(st.booleans()), 'narrow': narrow,
            # interfaces defined by a class statement inside a function and
            # bound as module globals (importable by name, but with a
            # __qualname__ that is not) - seed C13h
            'nested': draw(st.lists(st.booleans(), min_size=nI, max_size=nI))}


def strategy(cfg):
    return case_strategy()


def run_case(case, cfg, out):
    from zope.interface import Attribute
    from zope.interface import Interface
    from zope.interface import alsoProvides
    from zope.interface import classImplements
    from zope.interface import classImplementsFirst
    from zope.interface import classImplementsOnly
    from zope.interface import directlyProvides
    from zope.interface import implementedBy
    from zope.interface import implementer
    from zope.interface import implementer_only
    from zope.interface import providedBy
    from zope.interface import provider
    from zope.interface.declarations import _empty
    from zope.interface.interface import InterfaceClass

    modname = uniq('verif_c13_m')
    marker = 'MARKER' + uniq('x')
    parent = None
    if case.get('dotted'):
        parent = modname
        sys.modules[parent] = types.ModuleType(parent)
        modname = parent + '.sub'
    mod = types.ModuleType(modname)
    sys.modules[modname] = mod
    if parent:
        sys.modules[parent].sub = mod
    try:
        _run(case, out, mod, modname, marker, locals())
    finally:
        del sys.modules[modname]
        if parent:
            del sys.modules[parent]


def _run(case, out, mod, modname, marker, z):
    Interface = z['Interface']
    implementedBy = z['implementedBy']
    providedBy = z['providedBy']
    ifaces = []
    for i, bs in enumerate(case['ibases']):
        name = 'I%d' % i
        if (case.get('nested') or [False] * (i + 1))[i]:
            ns = {'__name__': modname, 'Attribute': z['Attribute'],
                  'BASES': tuple(ifaces[b] for b in bs) or (Interface,)}
            exec('def make():\n'
                 '    class %s(*BASES):\n'
                 '        %r\n'
                 '        attr = Attribute(%r)\n'
                 '    return %s\n' % (
                     name, '%s doc of %s' % (marker, name),
                     '%s attribute doc' % marker, name), ns)
            iface = ns['make']()
            out.tag('interface_from_nested_class_statement')
        else:
            iface = z['InterfaceClass'](
                name, tuple(ifaces[b] for b in bs) or (Interface,),
                {'attr': z['Attribute']('%s attribute doc' % marker)},
                __doc__='%s doc of %s' % (marker, name), __module__=modname)
        setattr(mod, name, iface)
        ifaces.append(iface)

    def ii(lst):
        return [ifaces[i] for i in lst]

    classes = []
    nontrivial = False
    for c, spec in enumerate(case['classes']):
        name = 'K%d' % c
        body = {'__module__': modname, '__qualname__': name}

        def falsy_meta():
            # the metaclass lives in the case's own module: a class's
            # provides-declaration pickles a reference to type(cls)
            m = getattr(mod, 'FalsyMeta', None)
            if m is None:
                m = type('FalsyMeta', (_FalsyMeta,),
                         {'__module__': modname, '__qualname__': 'FalsyMeta'})
                setattr(mod, 'FalsyMeta', m)
            return m
        shape = spec['shape']
        if shape == 'oldstyle':
            body['__implemented__'] = tuple(ii(spec['ifaces']))
        cls, kept = make_class(name, [classes[b] for b in spec['bases']],
                               body, meta=falsy_meta() if spec.get('falsy')
                               else None)
        if not cls:
            out.tag('falsy_class')
        setattr(mod, name, cls)
        if shape == 'implementer':
            z['implementer'](*ii(spec['ifaces']))(cls)
        elif shape == 'implementer_only':
            z['implementer_only'](*ii(spec['ifaces']))(cls)
        elif shape == 'first_after':
            z['classImplements'](cls, *ii(spec['ifaces']))
            for i in ii(spec['ifaces2'])[:1]:
                z['classImplementsFirst'](cls, i)
        elif shape == 'only_after':
            z['classImplements'](cls, *ii(spec['ifaces2']))
            z['classImplementsOnly'](cls, *ii(spec['ifaces']))
        elif shape == 'implements_after':
            z['classImplements'](cls, *ii(spec['ifaces']))
            z['classImplements'](cls, *ii(spec['ifaces2']))
        elif shape == 'only_twice':
            z['implementer_only'](*ii(spec['ifaces']))(cls)
            z['classImplementsOnly'](cls, *ii(spec['ifaces2']))
        if shape not in ('implementer', 'none') or kept >= 2:
            nontrivial = True
        if spec['provides'] is not None:
            z['provider'](*ii(spec['provides']))(cls)
        if spec['also'] is not None:
            z['alsoProvides'](cls, *ii(spec['also']))
        classes.append(cls)
    funcs = []
    for f, spec in enumerate(case['funcs']):
        name = 'factory%d' % f
        ns = {'__name__': modname}
        exec('def %s():\n    return None\n' % name, ns)
        fn = ns[name]
        fn.__module__ = modname
        setattr(mod, name, fn)
        z['implementer'](*ii(spec['ifaces']))(fn)
        funcs.append(fn)
        nontrivial = True
    # The pickle of an instance declaration carries (class, interfaces as
    # declared).  A class re-declared after the instance declarations were
    # made (case['narrow']) changes nothing for a declaration none of whose
    # interfaces was redundant when it was made: its round trip must still
    # be exact (seed C13e).  A declaration from which a redundant interface
    # was dropped ("elided") gets it back on unpickling once the class has
    # stopped implementing it: for those the copy may provide the elided
    # interfaces in addition, nothing else.
    insts = []
    elided = []
    for spec in case['insts']:
        cls = classes[spec['cls']]
        ob = cls()
        el = set()
        if spec['direct'] is not None:
            el = {i for i in ii(spec['direct']) if i.implementedBy(cls)}
            z['directlyProvides'](ob, *ii(spec['direct']))
        if spec['also'] is not None:
            el |= {i for i in ii(spec['also']) if i.implementedBy(cls)}
            z['alsoProvides'](ob, *ii(spec['also']))
        insts.append(ob)
        elided.append(el)
    redeclared = set()
    for spec in case.get('narrow') or []:
        cls = classes[spec['cls']]
        if spec['only']:
            z['classImplementsOnly'](cls, *ii(spec['ifaces']))
        else:
            z['classImplements'](cls, *ii(spec['ifaces']))
        redeclared.update(k for k, ob in enumerate(insts)
                          if isinstance(ob, cls))
        out.tag('class_redeclared_after_instances')
    if nontrivial:
        out.nontrivial = True

    allowed_modules = {modname, modname.split('.')[0], 'zope.interface', 'zope.interface.interface',
                       'zope.interface.declarations', 'builtins', 'copyreg',
                       'zope.interface._zope_interface_coptimizations',
                       '__builtin__', 'copy_reg'}

    def scan(data, what, by_reference_only):
        if marker.encode() in data:
            out.fail('definition-in-pickle', '%s: pickle contains the '
                     'definition (marker doc string found)' % what)
            return False
        if not by_reference_only:
            return True
        strings = []
        for opcode, arg, pos in pickletools.genops(data):
            if opcode.name in ('GLOBAL',):
                m, n = arg.split(' ')
                strings.append((m, n))
            elif opcode.name in ('REDUCE', 'BUILD', 'NEWOBJ', 'NEWOBJ_EX',
                                 'OBJ', 'INST'):
                if opcode.name != 'REDUCE':
                    out.fail('by-value-pickle', '%s: opcode %s - the '
                             'specification is pickled by value' % (
                                 what, opcode.name))
                    return False
        for m, n in strings:
            if m not in allowed_modules:
                out.fail('foreign-global', '%s: references %s.%s' % (what, m,
                                                                     n))
                return False
            if m in ('copyreg', 'copy_reg'):
                out.fail('by-value-pickle', '%s: %s.%s' % (what, m, n))
                return False
        return True

    def iface_names(spec):
        return [getattr(i, '__name__', repr(i)) for i in spec]

    def flat_names(spec):
        return [i.__name__ for i in spec.flattened()]

    for proto in range(0, pickle.HIGHEST_PROTOCOL + 1):
        def rt(x, what, by_ref=True):
            try:
                data = pickle.dumps(x, proto)
            except Exception as e:  # noqa
                out.fail('dumps-raised', '%s protocol %d: dumps raised %r' % (
                    what, proto, e))
                return None, False
            if not scan(data, '%s protocol %d' % (what, proto), by_ref):
                return None, False
            try:
                return pickle.loads(data), True
            except Exception as e:  # noqa
                out.fail('loads-raised', '%s protocol %d: loads raised %r' % (
                    what, proto, e))
                return None, False

        for i, iface in enumerate(ifaces):
            out.checks += 1
            copy, ok = rt(iface, 'interface I%d' % i)
            if not ok:
                return
            if copy is not iface or hash(copy) != hash(iface) or \
                    copy != iface:
                out.fail('interface-identity', 'I%d protocol %d -> %r' % (
                    i, proto, copy))
                return
        for kind, things in (('class', classes), ('function', funcs)):
            for c, cls in enumerate(things):
                spec = implementedBy(cls)
                out.checks += 1
                copy, ok = rt(spec, 'implementedBy(%s %d)' % (kind, c))
                if not ok:
                    return
                if copy is not spec:
                    out.fail('implements-identity',
                             'implementedBy(%s %d, shape %s) protocol %d '
                             'unpickles as %r (interfaces %r), expected the '
                             'identical specification (interfaces %r)' % (
                                 kind, c,
                                 case['classes'][c]['shape']
                                 if kind == 'class' else 'function', proto,
                                 copy, iface_names(copy), iface_names(spec)))
                    return
        for c, cls in enumerate(classes):
            cp = cls.__dict__.get('__provides__')
            if cp is None:
                continue
            out.checks += 1
            copy, ok = rt(cp, 'K%d.__provides__' % c)
            if not ok:
                return
            if iface_names(copy) != iface_names(cp) or \
                    flat_names(copy) != flat_names(cp):
                out.fail('classprovides-interfaces',
                         'K%d.__provides__ protocol %d: %r -> %r' % (
                             c, proto, iface_names(cp), iface_names(copy)))
                return
            if type(copy) is not type(cp):
                out.fail('classprovides-type', repr(copy))
                return
        for k, ob in enumerate(insts):
            p = ob.__dict__.get('__provides__')
            if p is not None:
                out.checks += 1
                copy, ok = rt(p, 'instance %d __provides__' % k)
                if not ok:
                    return
                loose = k in redeclared and elided[k]
                if loose:
                    pass
                elif copy is not p:
                    out.fail('provides-identity',
                             'instance %d declaration protocol %d: unpickled '
                             'object is not the live shared declaration '
                             '(%r -> %r)' % (k, proto, iface_names(p),
                                             iface_names(copy)))
                    return
                if not loose and (copy != p or hash(copy) != hash(p)):
                    out.fail('provides-equality', 'instance %d' % k)
                    return
            out.checks += 1
            ocopy, ok = rt(ob, 'instance %d' % k, by_ref=False)
            if not ok:
                return
            if type(ocopy) is not type(ob):
                out.fail('instance-type', repr(ocopy))
                return
            if k in redeclared and elided[k]:
                have = set(providedBy(ob).flattened())
                got = set(providedBy(ocopy).flattened())
                may = set(have)
                for i in elided[k]:
                    may.update(i.__iro__)
                if not (have <= got <= may):
                    out.fail('instance-interfaces-band',
                             'instance %d protocol %d: copy provides %r, '
                             'original %r, elided when declared %r' % (
                                 k, proto, flat_names(providedBy(ocopy)),
                                 flat_names(providedBy(ob)),
                                 sorted(i.__name__ for i in elided[k])))
                    return
            elif flat_names(providedBy(ocopy)) != flat_names(providedBy(ob)) \
                    or iface_names(providedBy(ocopy)) != iface_names(
                        providedBy(ob)):
                out.fail('instance-interfaces',
                         'instance %d protocol %d: copy provides %r, '
                         'original %r' % (k, proto,
                                          flat_names(providedBy(ocopy)),
                                          flat_names(providedBy(ob))))
                return
            if p is not None and not (k in redeclared and elided[k]) and \
                    ocopy.__dict__.get('__provides__') is not p:
                out.fail('instance-shared-declaration', 'instance %d: copy '
                         'does not share the live declaration' % k)
                return
        out.checks += 1
        copy, ok = rt(z['_empty'], 'empty declaration')
        if not ok:
            return
        if copy is not z['_empty']:
            out.fail('empty-identity', repr(copy))
            return
