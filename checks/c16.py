"""C16 Components listings, lookups and events stay mutually consistent."""
from hypothesis import strategies as st

from vlib.core import uniq
from vlib.regmodel import RegModel

RULE = ('histories (<=40) over the eight register/unregister methods of one '
        'Components object (utilities, adapters, subscription adapters, '
        'handlers), handle(), re-initialisation; components drawn from a pool '
        'with equal, identical, hashable, unhashable and boolean-false members '
        '(hashability uniform within an equality class), names, info, related provided '
        'interfaces, factory= and event=False variants; oracle = dict/list '
        'model for the registered*() listings and return values, captured '
        'events, rebuildUtilityRegistryFromLocalCache() must find nothing, '
        'and every query method judged against the registry reference model '
        'fed with exactly the live registrations; non-trivial = one component '
        'registered under >=2 names with one of them replaced or removed, or '
        'the unhashable strategy entered after hashable components were '
        'counted; distinct by SHA-1')

IDX = st.sampled_from([0, 0, 0, 1, 1, 1, 2, 2, 3])
NAMES = ['', 'a', 'b']
INFOS = ['', 'info']


# thorough tier: coverage-guided campaigns on top of the random ones
ATHERIS = [{'impl': 'py', 'n': 6000, 'name': 'py-atheris'},
           {'impl': 'c', 'n': 6000, 'name': 'c-atheris'}]


def configs(tier, seed):
    n = 1000 if tier == 'quick' else 15000
    return [{'name': impl + '-components', 'impl': impl, 'mode': 'hyp', 'n': n}
            for impl in ('c', 'py')]


@st.composite
def op_strategy(draw):
    k = draw(st.sampled_from(
        ['regU'] * 6 + ['unregU'] * 4 + ['regA'] * 3 + ['unregA'] * 2 +
        ['regS'] * 2 + ['unregS'] * 2 + ['regH'] * 2 + ['unregH'] * 2 +
        ['query'] * 4 + ['reinit']))
    comp = [draw(IDX), draw(st.integers(0, 2))]      # equality key, variant
    req = draw(st.lists(st.integers(0, 2), max_size=2))
    prov = draw(st.integers(0, 3))
    name = draw(st.sampled_from(NAMES + ['']))
    if k == 'regU':
        return [k, comp, prov, name, draw(st.sampled_from(INFOS)),
                draw(st.sampled_from([True, True, True, False])),
                draw(st.integers(0, 7)) == 0]
    aim = None
    if k.startswith('unreg') and draw(st.integers(0, 9)) < 6:
        # aimed at a live registration: its key, and as component nothing /
        # the registered object / an equal but distinct one / another one
        aim = {'aim': draw(st.integers(0, 30)),
               'how': draw(st.sampled_from(['none', 'same', 'equal', 'equal',
                                            'other']))}
    if k == 'unregU':
        return [k, draw(st.one_of(st.none(), st.just(comp))), prov, name, aim]
    if k == 'regA':
        return [k, comp, req, prov, name, draw(st.sampled_from(INFOS)),
                draw(st.sampled_from([True, True, True, False]))]
    if k == 'unregA':
        return [k, draw(st.one_of(st.none(), st.just(comp))), req, prov, name,
                aim]
    if k == 'regS':
        return [k, comp, req, prov, draw(st.sampled_from(INFOS))]
    if k == 'unregS':
        return [k, draw(st.one_of(st.none(), st.just(comp))), req, prov, aim]
    if k == 'regH':
        return [k, comp, req, draw(st.sampled_from(INFOS))]
    if k == 'unregH':
        return [k, draw(st.one_of(st.none(), st.just(comp))), req, aim]
    if k == 'query':
        return [k, draw(st.lists(st.integers(0, 2), max_size=2)), prov, name]
    return [k]


@st.composite
def case_strategy(draw):
    ops = [draw(op_strategy()) for _ in range(draw(st.integers(6, 40)))]
    unhash = draw(st.lists(st.booleans(), min_size=4, max_size=4))
    if draw(st.integers(0, 3)) == 0:
        # recipe: one hashable component under two or three names of one
        # provided interface, then the first unhashable utility for that
        # interface (the bookkeeping switches strategy, carrying the
        # counts over), then one of the names goes or is replaced
        # (seed C16d)
        unhash[0], unhash[1] = False, True
        prov = draw(st.integers(0, 3))
        names = draw(st.permutations(NAMES))
        k = draw(st.integers(2, 3))
        pre = [['regU', [0, draw(st.integers(0, 1))], prov, nm, '', True,
                False] for nm in names[:k]]
        pre.append(['regU', [1, 0], draw(st.sampled_from([prov, prov, 0])),
                    draw(st.sampled_from(NAMES)), '', True, False])
        if draw(st.booleans()):
            pre.append(['unregU', None, prov, names[0], None])
        else:
            pre.append(['regU', [2, 0], prov, names[0], '', True, False])
        pre.append(['query', [], prov, names[1]])
        cut = draw(st.integers(0, min(6, len(ops))))
        ops = ops[:cut] + pre + ops[cut:]
    return {'unhash': unhash,
            # components that are false in a boolean context (empty
            # containers, objects with __len__ == 0) are components too
            'falsy': draw(st.lists(st.sampled_from([False, False, True]),
                                   min_size=4, max_size=4)),
            # components carrying their own name (the @named decorator sets
            # __component_name__): registering them with the default name
            # registers them under that name (seed C16g)
            'named': draw(st.lists(st.sampled_from([None, None, None, 'a',
                                                    'b']),
                                   min_size=4, max_size=4)),
            'ops': ops}


def strategy(cfg):
    return case_strategy()


class HashC:
    hashable = True

    falsy = False

    def __init__(self, key, variant):
        self.key, self.variant = key, variant
        self.calls = []

    def __bool__(self):
        return not self.falsy

    def __eq__(self, other):
        return isinstance(other, (HashC, UnhashC)) and other.key == self.key

    def __ne__(self, other):
        return not self == other

    def __hash__(self):
        return hash(('c', self.key))

    def __call__(self, *objs):
        self.calls.append(objs)
        return ('made', self.key, self.variant) + tuple(id(o) for o in objs)

    def __repr__(self):
        return '%s(%d.%d)' % (type(self).__name__, self.key, self.variant)


class UnhashC(HashC):
    hashable = False
    __hash__ = None


def run_case(case, cfg, out):
    from zope.interface import Interface
    from zope.interface import directlyProvides
    from zope.interface import providedBy
    from zope.interface import registry as zregistry
    from zope.interface.interface import InterfaceClass
    from zope.interface.interfaces import IRegistered
    from zope.interface.interfaces import IUnregistered
    from zope.interface.registry import Components

    tag = uniq('c16_')
    mk = lambda n, *b: InterfaceClass(tag + n, b or (Interface,), {},  # noqa
                                      __module__='verif.c16')
    P0 = mk('P0')
    P1 = mk('P1', P0)
    P2 = mk('P2', P0)
    P3 = mk('P3', P1)
    provs = [P0, P1, P2, P3]
    R0 = mk('R0')
    R1 = mk('R1', R0)
    R2 = mk('R2', R1)
    reqs = [R0, R1, R2]
    pool = {}

    def comp_of(ref):
        key, variant = ref[0] % 4, ref[1]
        if (key, variant) not in pool:
            cls = UnhashC if case['unhash'][key] else HashC
            pool[(key, variant)] = cls(key, variant)
            pool[(key, variant)].falsy = (case.get('falsy') or
                                          [False] * 4)[key]
            nm = (case.get('named') or [None] * 4)[key]
            if nm is not None:
                pool[(key, variant)].__component_name__ = nm
        return pool[(key, variant)]

    objs = []
    for r in reqs:
        ob = type('Ob', (), {})()
        directlyProvides(ob, r)
        objs.append(ob)

    events = []
    saved_notify = zregistry.notify
    zregistry.notify = events.append
    try:
        _history(case, out, locals())
    finally:
        zregistry.notify = saved_notify


def _history(case, out, env):
    Components = env['Components']
    Interface = env['Interface']
    IRegistered = env['IRegistered']
    IUnregistered = env['IUnregistered']
    provs, reqs, objs = env['provs'], env['reqs'], env['objs']
    comp_of, events = env['comp_of'], env['events']
    providedBy = env['providedBy']

    comps = Components('verif')
    U = {}      # (provided, name) -> (component, info, factory)
    A = {}      # (required, provided, name) -> (factory, info)
    S = []      # (required, provided, '', factory, info)
    H = []      # (required, '', factory, info)
    nt = [False]
    names_of = {}      # equality key -> set of (provided, name) ever live
    hashable_counted = [False]

    def ev_kinds():
        out_ = []
        for e in events:
            if IRegistered.providedBy(e):
                out_.append('R')
            elif IUnregistered.providedBy(e):
                out_.append('U')
            else:
                out_.append('?')
        return out_

    def expect_events(allowed, what):
        got = ev_kinds()
        if got not in allowed:
            out.fail('events', '%s emitted %r, expected one of %r' % (
                what, got, allowed))
            return False
        return True

    def models():
        sro = lambda s: s.__sro__  # noqa
        ext = lambda p, q: p.isOrExtends(q)  # noqa
        mu = RegModel(sro, ext, Interface)
        mu.add_registry(0)
        for (p, n), (c, _i, _f) in U.items():
            mu.register(0, (), p, n, c)
        ma = RegModel(sro, ext, Interface)
        ma.add_registry(0)
        for (r, p, n), (f, _i) in A.items():
            ma.register(0, r, p, n, f)
        for (r, p, _n, f, _i) in S:
            ma.subscribe(0, r, p, f)
        for (r, _n, f, _i) in H:
            ma.subscribe(0, r, None, f)
        return mu, ma

    def check_state(stage):
        out.checks += 1
        got = sorted(((id(r.provided), r.name, id(r.component), r.info,
                       id(r.factory)) for r in comps.registeredUtilities()))
        want = sorted((id(p), n, id(c), i, id(f))
                      for (p, n), (c, i, f) in U.items())
        if got != want:
            out.fail('registeredUtilities', '%s: listing %r, model %r' % (
                stage, [(r.provided.__name__, r.name, r.component, r.info)
                        for r in comps.registeredUtilities()],
                [(p.__name__, n, c, i) for (p, n), (c, i, f) in U.items()]))
            return False
        got = sorted((tuple(id(x) for x in r.required), id(r.provided), r.name,
                      id(r.factory), r.info)
                     for r in comps.registeredAdapters())
        want = sorted((tuple(id(x) for x in r), id(p), n, id(f), i)
                      for (r, p, n), (f, i) in A.items())
        if got != want:
            out.fail('registeredAdapters', '%s: %r vs model %r' % (
                stage, list(comps.registeredAdapters()), A))
            return False
        got = [(tuple(id(x) for x in r.required), id(r.provided),
                id(r.factory), r.info)
               for r in comps.registeredSubscriptionAdapters()]
        want = [(tuple(id(x) for x in r), id(p), id(f), i)
                for (r, p, _n, f, i) in S]
        if got != want:
            out.fail('registeredSubscriptionAdapters', '%s: %r vs model %r'
                     % (stage, list(comps.registeredSubscriptionAdapters()),
                        S))
            return False
        got = [(tuple(id(x) for x in r.required), id(r.factory), r.info)
               for r in comps.registeredHandlers()]
        want = [(tuple(id(x) for x in r), id(f), i) for (r, _n, f, i) in H]
        if got != want:
            out.fail('registeredHandlers', '%s: %r vs model %r' % (
                stage, list(comps.registeredHandlers()), H))
            return False
        diag = comps.rebuildUtilityRegistryFromLocalCache()
        if diag['needed_registered'] or diag['needed_subscribed']:
            out.fail('rebuildUtilityRegistryFromLocalCache',
                     '%s: reports %r with live utilities %r' % (
                         stage, diag, [(p.__name__, n, c)
                                       for (p, n), (c, i, f) in U.items()]))
            return False
        return True

    def check_queries(stage, reqidx, p, name):
        mu, ma = models()
        D = object()
        out.checks += 1
        for prov in {provs[p], provs[0]}:
            adm = mu.admissible(0, (), prov, name)
            g = comps.queryUtility(prov, name, D)
            ok = (g is D) if not adm else any(g is a for a in adm)
            if not ok:
                out.fail('queryUtility', '%s: queryUtility(%s, %r) = %r, '
                         'live registrations admit %r' % (
                             stage, prov.__name__, name, g, adm))
                return False
            got = dict(comps.getUtilitiesFor(prov))
            if set(got) != mu.names(0, (), prov):
                out.fail('getUtilitiesFor', '%s: names %r, model %r' % (
                    stage, sorted(got), sorted(mu.names(0, (), prov))))
                return False
            for n, v in got.items():
                if not any(v is a for a in mu.admissible(0, (), prov, n)):
                    out.fail('getUtilitiesFor', '%s: [%r] = %r' % (stage, n,
                                                                   v))
                    return False
            # every live (provided', equality class) exactly once
            want = []
            for (pp, n), (c, _i, _f) in U.items():
                if pp.isOrExtends(prov) and not any(
                        w[0] is pp and w[1] == c for w in want):
                    want.append((pp, c))
            gotall = list(comps.getAllUtilitiesRegisteredFor(prov))
            rest = list(gotall)
            missing = []
            for pp, c in want:
                for k, g2 in enumerate(rest):
                    if g2 == c:
                        del rest[k]
                        break
                else:
                    missing.append(c)
            if missing or rest:
                out.fail('getAllUtilitiesRegisteredFor',
                         '%s: getAllUtilitiesRegisteredFor(%s) = %r, live '
                         'registrations need %r' % (stage, prov.__name__,
                                                    gotall,
                                                    [c for _, c in want]))
                return False
        # adapters
        obs = [objs[i] for i in reqidx]
        specs = [providedBy(o) for o in obs]
        prov = provs[p]
        adm = ma.admissible(0, specs, prov, name)
        g = comps.queryMultiAdapter(obs, prov, name, D)
        want = [('made', a.key, a.variant) + tuple(id(o) for o in obs)
                for a in adm]
        if (not adm and g is not D) or (adm and g not in want):
            out.fail('queryMultiAdapter', '%s: queryMultiAdapter -> %r, '
                     'admissible factories %r' % (stage, g, adm))
            return False
        if len(obs) == 1:
            g = comps.queryAdapter(obs[0], prov, name, D)
            if (not adm and g is not D) or (adm and g not in want):
                out.fail('queryAdapter', '%s: -> %r, admissible %r' % (
                    stage, g, adm))
                return False
        gotnames = {n for n, _ in comps.getAdapters(obs, prov)}
        if gotnames != ma.names(0, specs, prov):
            out.fail('getAdapters', '%s: names %r, model %r' % (
                stage, gotnames, ma.names(0, specs, prov)))
            return False
        probs = ma.check_subscriptions(
            list(comps.adapters.subscriptions(specs, prov)), 0, specs, prov)
        if probs:
            out.fail('subscribers', '%s: %s' % (stage, '; '.join(probs[:3])))
            return False
        exp = ma.subscription_entries(0, specs, prov)
        res = comps.subscribers(obs, prov)
        if len(res) != len(exp):
            out.fail('subscribers', '%s: %d results, %d subscriptions' % (
                stage, len(res), len(exp)))
            return False
        # handlers
        hexp = ma.subscription_entries(0, specs, None)
        for e in hexp:
            del e[4].calls[:]
        comps.handle(*obs)
        for e in hexp:
            n = sum(1 for x in hexp if x[4] is e[4])
            if len(e[4].calls) != n:
                out.fail('handle', '%s: handler %r called %d times, listed %d'
                         % (stage, e[4], len(e[4].calls), n))
                return False
        return True

    def aimed_component(aim, registered):
        how = aim['how']
        if how == 'none':
            return None
        if how == 'same':
            return registered
        if how == 'equal':
            # equal, but another object
            for v in (0, 1, 2, 3):
                c = comp_of([registered.key, v])
                if c is not registered:
                    return c
        return comp_of([registered.key + 1, 0])

    for step, op in enumerate(case['ops']):
        kind = op[0]
        del events[:]
        what = 'step %d %r' % (step, op)
        aim = op[-1] if kind.startswith('unreg') and isinstance(
            op[-1], dict) else None
        if kind.startswith('unreg') and (op[-1] is None or aim):
            op = op[:-1]
        if kind == 'regU':
            _, cref, p, name, info, event, use_factory = op
            c = comp_of(cref)
            prov = provs[p]
            asked = name
            if name == '' and getattr(c, '__component_name__', ''):
                name = c.__component_name__
                op = [kind, cref, p, name, info, event, use_factory]
                out.tag('name_inferred')
            old = U.get((prov, name))
            factory = None
            if use_factory:
                factory = lambda c=c: c  # noqa
                comps.registerUtility(None, prov, asked, info, event,
                                      factory=factory)
            else:
                comps.registerUtility(c, prov, asked, info, event)
            if old is not None and old[0] == c and old[1] == info:
                if not expect_events([[]], what + ' (no-op)'):
                    return
            else:
                if old is not None:
                    # replaced
                    if len(names_of.get(old[0].key, ())) >= 2:
                        nt[0] = True
                    names_of.get(old[0].key, set()).discard((prov, name))
                    allowed = [['U', 'R']] if event else [['U'], []]
                else:
                    allowed = [['R']] if event else [[]]
                if not expect_events(allowed, what):
                    return
                U[(prov, name)] = (c, info, factory)
                names_of.setdefault(c.key, set()).add((prov, name))
                if c.hashable:
                    hashable_counted[0] = True
                elif hashable_counted[0]:
                    nt[0] = True
        elif kind == 'unregU':
            _, cref, p, name = op
            c = None if cref is None else comp_of(cref)
            prov = provs[p]
            if aim and U:
                prov, name = list(U)[aim['aim'] % len(U)]
                c = aimed_component(aim, U[(prov, name)][0])
                op = [kind, None, provs.index(prov), name]
                out.tag('aimed_unregU_' + aim['how'])
            old = U.get((prov, name))
            removes = old is not None and (c is None or c == old[0])
            r = comps.unregisterUtility(c, prov, name)
            if bool(r) != removes:
                out.fail('unregisterUtility-result', '%s returned %r, a '
                         'matching registration %s' % (
                             what, r, 'exists' if removes else
                             'does not exist'))
                return
            if not expect_events([['U']] if removes else [[]], what):
                return
            if removes:
                if len(names_of.get(old[0].key, ())) >= 2:
                    nt[0] = True
                names_of.get(old[0].key, set()).discard((prov, name))
                del U[(prov, name)]
        elif kind == 'regA':
            _, cref, req, p, name, info, event = op
            f = comp_of(cref)
            required = tuple(reqs[i] for i in req)
            asked = name
            if name == '' and getattr(f, '__component_name__', ''):
                name = f.__component_name__
                op = [kind, cref, req, p, name, info, event]
                out.tag('name_inferred')
            key = (required, provs[p], name)
            same = key in A and A[key][0] is f and A[key][1] == info
            comps.registerAdapter(f, required, provs[p], asked, info, event)
            if not expect_events(([['R'], []] if same else [['R']])
                                 if event else [[]], what):
                return
            A[key] = (f, info)
        elif kind == 'unregA':
            _, cref, req, p, name = op
            f = None if cref is None else comp_of(cref)
            required = tuple(reqs[i] for i in req)
            key = (required, provs[p], name)
            if aim and A:
                key = list(A)[aim['aim'] % len(A)]
                required, name = key[0], key[2]
                p = provs.index(key[1])
                f = aimed_component(aim, A[key][0])
                op = [kind, None, [reqs.index(x) for x in required], p, name]
                out.tag('aimed_unregA_' + aim['how'])
            old = A.get(key)
            removes = old is not None and (f is None or f == old[0])
            r = comps.unregisterAdapter(f, required, provs[p], name)
            if bool(r) != removes:
                out.fail('unregisterAdapter-result', '%s returned %r' % (
                    what, r))
                return
            if not expect_events([['U']] if removes else [[]], what):
                return
            if removes:
                del A[key]
        elif kind == 'regS':
            _, cref, req, p, info = op
            f = comp_of(cref)
            required = tuple(reqs[i] for i in req)
            comps.registerSubscriptionAdapter(f, required, provs[p], '', info)
            if not expect_events([['R']], what):
                return
            S.append((required, provs[p], '', f, info))
        elif kind == 'unregS':
            _, cref, req, p = op
            f = None if cref is None else comp_of(cref)
            required = tuple(reqs[i] for i in req)
            if aim and S:
                e0 = S[aim['aim'] % len(S)]
                required, p = e0[0], provs.index(e0[1])
                f = aimed_component(aim, e0[3])
                op = [kind, None, [reqs.index(x) for x in required], p]
                out.tag('aimed_unregS_' + aim['how'])
            new = [e for e in S if not (e[0] == required and e[1] is provs[p]
                                        and (f is None or e[3] == f))]
            k = len(S) - len(new)
            r = comps.unregisterSubscriptionAdapter(f, required, provs[p])
            if bool(r) != (k > 0):
                out.fail('unregisterSubscriptionAdapter-result', '%s '
                         'returned %r, %d matching' % (what, r, k))
                return
            if not expect_events([['U'] * j for j in range(1, k + 1)]
                                 if k else [[]], what):
                return
            S[:] = new
        elif kind == 'regH':
            _, cref, req, info = op
            f = comp_of(cref)
            required = tuple(reqs[i] for i in req)
            comps.registerHandler(f, required, '', info)
            if not expect_events([['R']], what):
                return
            H.append((required, '', f, info))
        elif kind == 'unregH':
            _, cref, req = op
            f = None if cref is None else comp_of(cref)
            required = tuple(reqs[i] for i in req)
            if aim and H:
                e0 = H[aim['aim'] % len(H)]
                required = e0[0]
                f = aimed_component(aim, e0[2])
                op = [kind, None, [reqs.index(x) for x in required]]
                out.tag('aimed_unregH_' + aim['how'])
            new = [e for e in H if not (e[0] == required and
                                        (f is None or e[2] == f))]
            k = len(H) - len(new)
            r = comps.unregisterHandler(f, required)
            if bool(r) != (k > 0):
                out.fail('unregisterHandler-result', '%s returned %r, %d '
                         'matching' % (what, r, k))
                return
            if not expect_events([['U'] * j for j in range(1, k + 1)]
                                 if k else [[]], what):
                return
            H[:] = new
        elif kind == 'reinit':
            comps.__init__('verif')
            U.clear()
            A.clear()
            del S[:]
            del H[:]
            names_of.clear()
            hashable_counted[0] = False
        elif kind == 'query':
            _, reqidx, p, name = op
            if not check_queries(what, reqidx, p, name):
                return
            continue
        if not check_state(what):
            return
        if kind in ('regS', 'unregS', 'regH', 'unregH', 'regA', 'unregA'):
            # look at exactly the key that was just touched
            req = op[2]
            p = op[3] if kind in ('regS', 'unregS', 'regA', 'unregA') else 0
            nm = op[4] if kind in ('regA', 'unregA') else ''
            if not check_queries(what + ' (touched key)',
                                 [min(i + (step % 2), 2) for i in req], p,
                                 nm):
                return
        elif kind in ('regU', 'unregU'):
            if not check_queries(what + ' (touched key)', [], op[2], op[3]):
                return
        if step % 4 == 0:
            if not check_queries(what + ' (queries)', [step % 3], step % 4,
                                 ''):
                return
    check_queries('end', [2], 0, '')
    if nt[0]:
        out.nontrivial = True
