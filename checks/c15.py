"""C15 Attribute, tagged-value and invariant resolution all follow the
resolution order."""
from hypothesis import strategies as st

from vlib import models
from vlib.core import uniq

RULE = ('interface DAGs (2-8 nodes, <=3 bases, diamonds forced with p=0.5) in '
        'which several ancestors define the same attribute names / tags / '
        'invariants, histories of get() calls (memo warm-up), setTaggedValue, '
        'observers subscribed to an interface that re-check every accessor '
        'from inside changed(), and __bases__ reassignments; oracle = first '
        'definer in the actual __iro__, all accessors compared by identity; '
        'non-trivial = some name is defined by >=2 ancestors of an interface '
        'and the depth-first base walk and __iro__ pick different definers; '
        'distinct by SHA-1')

NAMES = ['a', 'b', 'c', 'd']
TAGS = ['t', 'u']


# thorough tier: coverage-guided campaigns on top of the random ones
ATHERIS = [{'impl': 'py', 'n': 40000, 'name': 'py-atheris'},
           {'impl': 'c', 'n': 40000, 'name': 'c-atheris'}]

def configs(tier, seed):
    n = 1200 if tier == 'quick' else 20000
    return [{'name': impl + '-resolve', 'impl': impl, 'mode': 'hyp', 'n': n}
            for impl in ('c', 'py')]


@st.composite
def case_strategy(draw):
    n = draw(st.integers(2, 8))
    nodes = []
    for i in range(n):
        if i >= 3 and draw(st.booleans()):
            # force a diamond: two bases sharing an ancestor
            anc = draw(st.integers(0, i - 3))
            mids = [j for j in range(anc + 1, i)]
            bs = draw(st.lists(st.sampled_from(mids), min_size=2, max_size=3,
                               unique=True)) if len(mids) >= 2 else []
            nodes.append({'bases': bs, 'want_anc': anc})
        else:
            k = draw(st.integers(0, min(3, i)))
            bs = draw(st.lists(st.integers(0, i - 1), min_size=k, max_size=k,
                               unique=True)) if k else []
            nodes.append({'bases': bs})
        nd = nodes[-1]
        nd['attrs'] = draw(st.lists(
            st.tuples(st.sampled_from(NAMES), st.sampled_from('am')).map(list),
            max_size=3, unique_by=lambda t: t[0]))
        nd['tags'] = draw(st.lists(st.sampled_from(TAGS), max_size=2,
                                   unique=True))
        nd['inv'] = draw(st.lists(st.booleans(), max_size=2))
    ops = []
    for _ in range(draw(st.integers(0, 8))):
        k = draw(st.sampled_from(['get', 'get', 'rebase', 'rebase', 'settag',
                                  'observe', 'rebase_mode']))
        if k == 'get':
            ops.append(['get', draw(st.integers(0, 20)),
                        draw(st.sampled_from(NAMES))])
        elif k == 'rebase':
            ops.append(['rebase', draw(st.integers(0, 20)),
                        draw(st.lists(st.integers(0, 20), max_size=3))])
        elif k == 'rebase_mode':
            ops.append(['rebase_mode', draw(st.integers(0, 20)),
                        draw(st.sampled_from(['reverse', 'rotate', 'same']))])
        elif k == 'settag':
            ops.append(['settag', draw(st.integers(0, 20)),
                        draw(st.sampled_from(TAGS))])
        else:
            ops.append(['observe', draw(st.integers(0, 20))])
    return {'nodes': nodes, 'ops': ops}


def strategy(cfg):
    return case_strategy()


def run_case(case, cfg, out):
    from zope.interface import Attribute
    from zope.interface import Interface
    from zope.interface import invariant as zinvariant
    from zope.interface.exceptions import Invalid
    from zope.interface.interface import InterfaceClass
    from zope.interface.interface import Method

    nodes = case['nodes']
    n = len(nodes)
    tag = uniq('c15_')
    bases = []
    ifaces = []
    inv_log = []
    inv_specs = []   # per node list of (callable, fails, label)

    def mkfunc(name):
        ns = {}
        exec('def %s(x, y=1):\n    pass\n' % name, ns)
        return ns[name]

    for i, nd in enumerate(nodes):
        bs = list(nd['bases'])
        if 'want_anc' in nd:
            # keep only bases that really reach the wanted ancestor if two
            # such exist (diamond), otherwise keep the drawn ones
            good = [b for b in bs if nd['want_anc'] in models.reach(bases, b)]
            if len(good) >= 2:
                bs = good
        bases.append(bs)
        attrs = {}
        for name, kind in nd['attrs']:
            attrs[name] = Attribute('%s of %d' % (name, i)) if kind == 'a' \
                else mkfunc(name)
        invs = []
        for k, fails in enumerate(nd['inv']):
            label = (i, k)

            def inv(ob, label=label, fails=fails):
                inv_log.append(label)
                if fails:
                    raise Invalid('inv %r' % (label,))
            invs.append((inv, fails, label))
        inv_specs.append(invs)
        iface = InterfaceClass('%s_%d' % (tag, i),
                               tuple(ifaces[b] for b in bs) or (Interface,),
                               attrs, __module__='verif.c15')
        for t in nd['tags']:
            # some values are None: a tag whose value is None is defined
            iface.setTaggedValue(t, None if (i + len(t)) % 4 == 0
                                 else ('tag', t, i))
        if invs:
            iface.setTaggedValue('invariants', [f for f, _, _ in invs])
        ifaces.append(iface)
    iidx = {id(x): k for k, x in enumerate(ifaces)}
    direct_tags = [set(nd['tags']) | ({'invariants'} if nd['inv'] else set())
                   for nd in nodes]
    tagvals = [{t: ifaces[i].queryDirectTaggedValue(t) for t in direct_tags[i]}
               for i in range(n)]

    def dfs_definer(i, name):
        # what a depth-first, base-order walk would find (pre-C3 behaviour)
        if ifaces[i].direct(name) is not None:
            return i
        for b in bases[i]:
            r = dfs_definer(b, name)
            if r is not None:
                return r
        return None

    def check_iface(i, stage):
        I = ifaces[i]
        iro = [iidx[id(x)] for x in I.__iro__ if x is not Interface]
        out.checks += 1
        # the order itself, against the textbook C3 of the CURRENT bases
        # (after a re-base higher up a descendant may keep a stale order,
        # and then resolves names along it)
        try:
            want = models.c3(bases, i, {})
        except models.Inconsistent:
            want = None
        if want is not None and want != iro:
            out.fail('iro-not-current',
                     '%s: interface %d resolves along %r, the C3 order of '
                     'its current bases %r is %r' % (stage, i, iro, bases,
                                                     want))
            return
        present = {}
        for name in NAMES:
            definers = [j for j in iro if ifaces[j].direct(name) is not None]
            D = ifaces[definers[0]].direct(name) if definers else None
            if len(definers) >= 2 and dfs_definer(i, name) != definers[0]:
                out.nontrivial = True
            if D is not None:
                present[name] = D
            if I.get(name) is not D:
                out.fail('get', '%s: iface %d get(%r) is %r, first definer '
                         'in __iro__ %r gives %r' % (stage, i, name,
                                                     I.get(name), iro, D))
                return False
            if I.queryDescriptionFor(name) is not D:
                out.fail('queryDescriptionFor', '%s: iface %d %r' % (
                    stage, i, name))
                return False
            try:
                got = I[name]
            except KeyError:
                got = None
            if got is not D:
                out.fail('getitem', '%s: iface %d [%r] is %r, expected %r' % (
                    stage, i, name, got, D))
                return False
            if (name in I) != (D is not None):
                out.fail('contains', '%s: iface %d %r in -> %r' % (
                    stage, i, name, name in I))
                return False
            if D is not None and not isinstance(D, (Attribute, Method)):
                out.fail('description-type', repr(D))
                return False
        if set(iter(I)) != set(present) or len(list(iter(I))) != len(present):
            out.fail('iter', '%s: iface %d iter %r, expected %r' % (
                stage, i, sorted(iter(I)), sorted(present)))
            return False
        if set(I.names(all=True)) != set(present):
            out.fail('names-all', '%s: iface %d names(all) %r, expected %r'
                     % (stage, i, sorted(I.names(all=True)), sorted(present)))
            return False
        nad = list(I.namesAndDescriptions(all=True))
        if len(nad) != len(present) or any(present.get(k) is not v
                                           for k, v in nad):
            out.fail('namesAndDescriptions-all',
                     '%s: iface %d namesAndDescriptions(all=True) gives %r, '
                     'expected %r (iro %r)' % (
                         stage, i, sorted((k, str(v)) for k, v in nad),
                         sorted((k, str(v)) for k, v in present.items()),
                         iro))
            return False
        own = {nm for nm, _ in nodes[i]['attrs']}
        if set(I.names()) != own or {k for k, _ in
                                     I.namesAndDescriptions()} != own:
            out.fail('names-direct', '%s: iface %d' % (stage, i))
            return False
        # tagged values
        alltags = set()
        for t in TAGS + ['invariants']:
            definers = [j for j in iro if t in direct_tags[j]]
            want = tagvals[definers[0]][t] if definers else None
            if definers:
                alltags.add(t)
            if I.queryTaggedValue(t) is not want:
                out.fail('queryTaggedValue', '%s: iface %d tag %r -> %r, '
                         'expected %r (iro %r)' % (
                             stage, i, t, I.queryTaggedValue(t), want, iro))
                return False
            # the default is returned only if nobody defines the tag, even
            # if the nearest definition is the very object passed as default
            # (seed C15f)
            sentinel = object()
            for dflt in (sentinel, want):
                got = I.queryTaggedValue(t, dflt)
                exp = want if definers else dflt
                if got is not exp:
                    out.fail('queryTaggedValue-default', '%s: iface %d '
                             'queryTaggedValue(%r, %s) -> %r, expected %r '
                             '(iro %r)' % (
                                 stage, i, t, 'the nearest value itself'
                                 if dflt is want else 'a sentinel', got, exp,
                                 iro))
                    return False
            try:
                got = I.getTaggedValue(t)
                raised = False
            except KeyError:
                got, raised = None, True
            if got is not want or raised != (not definers):
                out.fail('getTaggedValue', '%s: iface %d tag %r -> %r%s, '
                         'expected %r' % (stage, i, t, got,
                                          ' (KeyError)' if raised else '',
                                          want))
                return False
        if set(I.getTaggedValueTags()) != alltags:
            out.fail('getTaggedValueTags', '%s: iface %d %r != %r' % (
                stage, i, sorted(I.getTaggedValueTags()), sorted(alltags)))
            return False
        # invariants
        want_run = [lab for j in iro for _, _, lab in inv_specs[j]]
        want_fail = [lab for j in iro for _, f, lab in inv_specs[j] if f]
        del inv_log[:]
        errors = []
        try:
            I.validateInvariants(object(), errors)
            raised = None
        except Invalid as e:
            raised = e
        if inv_log != want_run:
            out.fail('invariants-run', '%s: iface %d ran %r, expected %r' % (
                stage, i, inv_log, want_run))
            return False
        if [e.args[0] for e in errors] != ['inv %r' % (lab,)
                                           for lab in want_fail]:
            out.fail('invariants-collected', '%s: iface %d collected %r, '
                     'expected %r' % (stage, i, errors, want_fail))
            return False
        if bool(raised) != bool(want_fail):
            out.fail('invariants-raise', '%s: iface %d' % (stage, i))
            return False
        del inv_log[:]
        try:
            I.validateInvariants(object())
            raised = None
        except Invalid as e:
            raised = e
        if want_fail:
            upto = want_run[:want_run.index(want_fail[0]) + 1]
            if raised is None or inv_log != upto or \
                    raised.args[0] != 'inv %r' % (want_fail[0],):
                out.fail('invariants-first', '%s: iface %d ran %r raised %r, '
                         'expected to stop at %r' % (stage, i, inv_log,
                                                     raised, want_fail[0]))
                return False
        elif raised is not None or inv_log != want_run:
            out.fail('invariants-first', '%s: iface %d' % (stage, i))
            return False
        return True

    def check_all(stage):
        for i in range(n):
            if not check_iface(i, stage):
                return False
        return True

    if not check_all('built'):
        return

    observers = []

    class Observer:
        def __init__(self, node):
            self.node = node

        pending = ()

        def changed(self, originally_changed):
            # The interface has recomputed its own order when it notifies
            # us.  An interface that the change reaches along two paths is
            # notified once per path, and the first time one of its bases
            # may not have recomputed yet (the order in which dependents
            # are notified is not specified, and the statement speaks of
            # the state after the change): only what the LAST notification
            # of an operation shows is judged, after the operation.
            n0 = len(out.fails)
            check_iface(self.node, 'inside the last changed() of an '
                        'observer of %d' % self.node)
            self.pending = out.fails[n0:]
            del out.fails[n0:]

    for k, op in enumerate(case['ops']):
        kind = op[0]
        i = op[1] % n
        if kind == 'get':
            ifaces[i].get(op[2])
            continue
        if kind == 'settag':
            v = ('tag', op[2], i, 'late', k)
            ifaces[i].setTaggedValue(op[2], v)
            direct_tags[i].add(op[2])
            tagvals[i][op[2]] = v
        elif kind == 'observe':
            ob = Observer(i)
            observers.append(ob)
            ifaces[i].subscribe(ob)
            out.tag('observer')
            continue
        elif kind in ('rebase', 'rebase_mode'):
            if kind == 'rebase':
                desc = models.descendants(bases, i)
                cands = [j for j in range(n) if j not in desc]
                nb = []
                for x in op[2]:
                    if cands:
                        c = cands[x % len(cands)]
                        if c not in nb:
                            nb.append(c)
            elif op[2] == 'reverse':
                nb = list(reversed(bases[i]))
            elif op[2] == 'rotate':
                nb = bases[i][1:] + bases[i][:1]
            else:
                nb = list(bases[i])
            bases[i] = nb
            for ob in observers:
                ob.pending = ()
            ifaces[i].__bases__ = tuple(ifaces[j] for j in nb) or (Interface,)
            out.tag('rebase')
            for ob in observers:
                out.fails.extend(ob.pending)
                ob.pending = ()
        if not check_all('after op %d %r' % (k, op)) or out.fails:
            return
