"""C07 subscriptions() returns every applicable subscriber, with
multiplicity, in order."""
from hypothesis import strategies as st

from vlib import reguniv
from vlib.reguniv import IDX
from vlib.reguniv import Universe
from vlib.reguniv import Val

RULE = ('generated universes (see C04) with chains/DAGs of 1-3 registries; '
        'histories (<=40) of subscribe / unsubscribe (without value, with the '
        'identical, an equal-but-distinct or an unrelated value) with arity '
        '0-3, handlers (provided=None), duplicates; queries through '
        'subscriptions, subscribers (recording callables, some returning '
        'None), subscribed, allSubscriptions, derived from earlier '
        'subscriptions; oracle = list model (exact multiset by identity + '
        'order along registry / generality / subscription order); '
        'non-trivial = a query whose expected result has >=2 elements from '
        '>=2 distinct (registry, required) keys or contains a duplicate / '
        'equal-but-distinct pair; distinct by SHA-1')


# thorough tier: coverage-guided campaigns on top of the random ones
ATHERIS = [{'impl': 'py', 'n': 30000, 'name': 'py-atheris'},
           {'impl': 'c', 'n': 30000, 'name': 'c-atheris'}]

def configs(tier, seed):
    n = 1500 if tier == 'quick' else 20000
    return [{'name': impl + '-subs', 'impl': impl, 'mode': 'hyp', 'n': n}
            for impl in ('c', 'py')]


# other entry points used on the same key just before the query: the caches
# they fill must not leak into subscriptions()
WARM = st.sampled_from([None, None, 'lookupAll', 'names', 'lookup',
                        'subscriptions'])


@st.composite
def op_strategy(draw):
    k = draw(st.sampled_from(['sub'] * 3 + ['relsub'] * 6 + ['unsub'] * 3 +
                             ['query'] * 5 + ['call', 'all', 'subscribed']))
    if k == 'sub':
        return ['sub', draw(IDX), draw(reguniv.reg_key_biased()),
                draw(st.one_of(st.none(), IDX, IDX)),
                draw(st.integers(0, 3)), draw(st.booleans())]
    if k == 'relsub':
        return ['relsub', draw(IDX), draw(IDX), draw(IDX),
                draw(st.integers(0, 40)), draw(st.integers(0, 3)),
                draw(st.integers(0, 3)), draw(st.booleans())]
    if k == 'unsub':
        return ['unsub', draw(IDX),
                draw(st.sampled_from(['all', 'same', 'equal', 'other',
                                      'same', 'equal']))]
    if k == 'query':
        return ['query', draw(IDX), draw(IDX),
                draw(st.lists(st.integers(0, 40), min_size=3, max_size=3)),
                draw(st.integers(0, 40)), draw(WARM)]
    if k == 'call':
        return ['call', draw(IDX), draw(st.lists(IDX, max_size=2)),
                draw(st.one_of(st.none(), IDX))]
    if k == 'subscribed':
        return ['subscribed', draw(IDX), draw(st.integers(0, 3))]
    return ['all', draw(IDX)]


@st.composite
def case_strategy(draw):
    bp = draw(reguniv.blueprint(max_insts=3, max_classes=3))
    ops = []
    for _ in range(draw(st.integers(2, 5))):
        ops.append(['sub', draw(IDX), draw(reguniv.reg_key_biased()),
                    draw(st.one_of(st.none(), IDX, IDX)),
                    draw(st.integers(0, 3)), draw(st.booleans())])
    ops += draw(st.lists(op_strategy(), min_size=6, max_size=34))
    for _ in range(draw(st.integers(2, 4))):
        ops.append(['query', draw(IDX), draw(IDX),
                    draw(st.lists(st.integers(0, 40), min_size=3,
                                  max_size=3)), draw(st.integers(0, 40)),
                    draw(WARM)])
    return {'bp': bp, 'ops': ops}


def strategy(cfg):
    return case_strategy()


class SubVal(Val):
    __slots__ = ('returns_none', 'calls')

    def __init__(self, label, key, returns_none):
        Val.__init__(self, label, key)
        self.returns_none = returns_none
        self.calls = []

    def __call__(self, *objs):
        self.calls.append(objs)
        if self.returns_none:
            return None
        return ('result', self.label, objs)


def run_case(case, cfg, out):
    from zope.interface import providedBy
    U = Universe(case['bp'])
    out.adjusted += U.adjusted
    M = U.model
    made = []       # (r, req, prov, value)
    counter = [0]

    def newval(keyn, rn):
        counter[0] += 1
        return SubVal(counter[0], ('k', keyn), rn)

    def check_query(r, required, provided, what):
        got = U.regs[r].subscriptions(required, provided)
        exp = M.subscription_entries(r, required, provided)
        keys = {(e[0], e[1]) for e in exp}
        vals = [e[4] for e in exp]
        dup = any(a == b for i, a in enumerate(vals) for b in vals[i + 1:])
        if (len(exp) >= 2 and len(keys) >= 2) or dup:
            out.nontrivial = True
        out.tag('expected_%d' % min(len(exp), 4))
        out.checks += 1
        probs = M.check_subscriptions(list(got), r, required, provided)
        if probs:
            out.fail('subscriptions', '%s: registry %d (%s) subscriptions(%s, '
                     '%s) = %r: %s' % (
                         what, r, U.flavours[r],
                         [U.describe(s) for s in required],
                         getattr(provided, '__name__', None), list(got),
                         '; '.join(probs[:4])))
            return False
        return True

    for k, op in enumerate(case['ops']):
        kind = op[0]
        if kind in ('sub', 'relsub'):
            if kind == 'sub':
                _, r, reqrefs, p, keyn, rn = op
                r = r % len(U.regs)
                req = [U.spec(ref) for ref in reqrefs]
                prov = None if p is None else U.prov(p)
            else:
                if not made:
                    continue
                _, r, which, pos, pick, ppick, keyn, rn = op
                r0, req0, prov0, _v = made[which % len(made)]
                r = r % len(U.regs) if pick % 3 == 0 else r0
                req = list(req0)
                if req and pick % 4:
                    pos = pos % len(req)
                    if req[pos] is None:
                        pool = U.all_lookup_specs() + [None]
                    else:
                        pool = [s for s in req[pos].__sro__
                                if s in U.ifaces or s is req[pos]] + [None]
                    req[pos] = pool[pick % len(pool)]
                if prov0 is None or ppick == 0:
                    prov = prov0
                else:
                    rel = [q for q in U.provs if q.isOrExtends(prov0) or
                           prov0.isOrExtends(q)]
                    prov = rel[ppick % len(rel)]
            v = newval(keyn, rn)
            U.regs[r].subscribe(req, prov, v)
            M.subscribe(r, req, prov, v)
            made.append((r, req, prov, v))
            out.tag('subscribe')
        elif kind == 'unsub':
            if not made:
                continue
            _, which, how = op
            r, req, prov, v = made[which % len(made)]
            if how == 'all':
                U.regs[r].unsubscribe(req, prov)
                M.unsubscribe(r, req, prov)
            else:
                if how == 'same':
                    val = v
                elif how == 'equal':
                    val = SubVal('eq', v.key, True)
                else:
                    val = SubVal('other', ('zz', k), True)
                U.regs[r].unsubscribe(req, prov, val)
                M.unsubscribe(r, req, prov, val)
            out.tag('unsubscribe_' + how)
        elif kind == 'query':
            if not made:
                continue
            _, r, which, picks, ppick = op[:5]
            warm = op[5] if len(op) > 5 else None
            r0, req0, prov0, _v = made[which % len(made)]
            below = [x for x in range(len(U.regs)) if r0 in M.ro(x)]
            r = below[r % len(below)]
            required = []
            for i, key in enumerate(req0):
                pool = U.descendants_of(key)
                required.append(pool[picks[i % len(picks)] % len(pool)])
            if prov0 is None:
                provided = None
            else:
                anc = U.prov_ancestors(prov0)
                provided = anc[ppick % len(anc)]
            if warm == 'lookupAll':
                U.regs[r].lookupAll(required, provided)
            elif warm == 'names':
                U.regs[r].names(required, provided)
            elif warm == 'lookup' and provided is not None:
                U.regs[r].lookup(required, provided, '')
            elif warm == 'subscriptions':
                U.regs[r].subscriptions(required, provided)
            if warm:
                out.tag('warm_' + warm)
            if not check_query(r, required, provided, 'op %d' % k):
                return
        elif kind == 'call':
            if not U.insts:
                continue
            _, r, obidx, p = op
            r = r % len(U.regs)
            objs = [U.insts[i % len(U.insts)] for i in obidx]
            provided = None if p is None else U.prov(p)
            required = [providedBy(o) for o in objs]
            if not check_query(r, required, provided, 'op %d (call)' % k):
                return
            subs = list(U.regs[r].subscriptions(required, provided))
            if not all(isinstance(s, SubVal) for s in subs):
                out.fail('subscriptions', 'op %d: foreign elements %r' % (
                    k, subs))
                return
            for s in subs:
                del s.calls[:]
            res = U.regs[r].subscribers(objs, provided)
            out.checks += 1
            # every subscription called exactly as often as it is listed
            for s in set(subs):
                n = sum(1 for x in subs if x is s)
                if len(s.calls) != n or any(
                        len(c) != len(objs) or any(a is not b for a, b in
                                                   zip(c, objs))
                        for c in s.calls):
                    out.fail('subscribers-calls', 'op %d: subscriber %r '
                             'called %r, expected %d calls with the objects'
                             % (k, s, s.calls, n))
                    return
            if provided is None:
                if len(res) != 0:
                    out.fail('subscribers-handlers', 'handlers returned %r'
                             % (res,))
                    return
            else:
                want = [('result', s.label, tuple(objs)) for s in subs
                        if not s.returns_none]
                if list(res) != want:
                    out.fail('subscribers-result', 'op %d: subscribers() = '
                             '%r, expected %r' % (k, res, want))
                    return
            out.tag('subscribers')
        elif kind == 'subscribed':
            if not made:
                continue
            _, which, how = op
            r, req, prov, v = made[which % len(made)]
            probe = [v, SubVal('eq', v.key, True),
                     SubVal('other', ('zz', k), True), v][how]
            want = M.subscribed(r, req, prov, probe)
            got = U.regs[r].subscribed(req, prov, probe)
            out.checks += 1
            if (got is not None) != want or (got is not None and
                                              got != probe):
                out.fail('subscribed', 'op %d: subscribed(..., %r) = %r, '
                         'model %r' % (k, probe, got, want))
                return
            # never finds it under another key
            other = U.provs[(U.provs.index(prov) + 1) % len(U.provs)] \
                if prov is not None and len(U.provs) > 1 else None
            if other is not None and other is not prov:
                if (U.regs[r].subscribed(req, other, probe) is not None) != \
                        M.subscribed(r, req, other, probe):
                    out.fail('subscribed', 'op %d: wrong key' % k)
                    return
        elif kind == 'all':
            r = op[1] % len(U.regs)
            got = list(U.regs[r].allSubscriptions())
            exp = [(e[0], e[1], e[2]) for e in M.subs[r]]
            out.checks += 1
            # exact multiset, per-key order
            def norm(lst):
                d = {}
                for req, prov, v in lst:
                    d.setdefault((tuple(req), prov), []).append(id(v))
                return d
            if norm(got) != norm(exp):
                out.fail('allSubscriptions', 'op %d: registry %d lists %r, '
                         'expected %r' % (k, r, got, exp))
                return
