"""C02 extends/isOrExtends equal reachability over current bases, after any
rebasing."""
import gc

from hypothesis import strategies as st

from vlib import models
from vlib.core import uniq

RULE = ('specification graphs of 3-10 nodes of mixed kinds (InterfaceClass, '
        'class specification, instance Provides, ClassProvides, Declaration, '
        'Specification) plus the root; histories (<=12) of __bases__ '
        'reassignment at any node (new bases among the nodes that do not '
        'reach it; same / reversed / rotated lists too), re-bases made by a '
        'subscribed dependent while another re-base propagates, dropping a leaf + '
        'gc, and queries between mutations; oracle = DFS reachability and a '
        'freshly built twin graph of the same shape (answers and '
        '__sro__/__iro__ sequences); non-trivial = a rebase flips the '
        'expected answer of a pair whose S is >=2 edges below the rebased '
        'node; distinct by SHA-1')

GC_EVERY = 40


# thorough tier: coverage-guided campaigns on top of the random ones
ATHERIS = [{'impl': 'py', 'n': 30000, 'name': 'py-atheris'},
           {'impl': 'c', 'n': 30000, 'name': 'c-atheris'}]

def configs(tier, seed):
    n = 1500 if tier == 'quick' else 20000
    return [{'name': impl + '-rebase', 'impl': impl, 'mode': 'hyp', 'n': n}
            for impl in ('c', 'py')]


@st.composite
def case_strategy(draw):
    n = draw(st.integers(4, 10))
    kinds = ['R']
    bases = [[]]
    for i in range(1, n + 1):
        kind = draw(st.sampled_from('IIIIICCPKDS' if i < n - 1 else 'ICPKPK'))
        cands = [j for j in range(1, i)
                 if (kinds[j] == 'I' if kind == 'I' else kinds[j] in 'ICDS')]
        k = min(draw(st.sampled_from([0, 1, 1, 1, 1, 2, 2, 2, 3])), len(cands))
        bs = draw(st.lists(st.sampled_from(cands), min_size=k, max_size=k,
                           unique=True)) if k else []
        kinds.append(kind)
        bases.append(bs)
    ops = []
    for _ in range(draw(st.integers(1, 12))):
        k = draw(st.sampled_from(['rebase'] * 6 + ['mode', 'mode', 'drop',
                                                   'query', 'empty',
                                                   'watch']))
        if k == 'rebase':
            ops.append(['rebase', draw(st.integers(0, 30)),
                        draw(st.lists(st.integers(0, 30), min_size=1,
                                      max_size=3))])
        elif k == 'mode':
            ops.append(['mode', draw(st.integers(0, 30)),
                        draw(st.sampled_from(['same', 'reverse', 'rotate',
                                              'clear']))])
        elif k == 'drop':
            ops.append(['drop', draw(st.integers(0, 30))])
        elif k == 'watch':
            # a dependent (public subscribe()/changed() protocol) that, the
            # first time the watched node changes, re-bases another node:
            # a reassignment made while another one is still propagating
            ops.append(['watch', draw(st.integers(0, 30)),
                        draw(st.integers(0, 30)),
                        draw(st.lists(st.integers(0, 30), min_size=1,
                                      max_size=2))])
        elif k == 'query':
            ops.append(['query'])
        else:
            ops.append(['empty', draw(st.integers(0, 30))])
    return {'kinds': ''.join(kinds), 'bases': bases, 'ops': ops}


def strategy(cfg):
    return case_strategy()


class World:
    """Real objects for a graph blueprint."""

    def __init__(self, kinds, tag):
        from zope.interface import Interface
        self.kinds = kinds
        self.tag = tag
        self.spec = {0: Interface}
        self.holder = {}      # node -> instance / class whose decl it is

    def create(self, i, bases):
        from zope.interface import directlyProvides
        from zope.interface import implementedBy
        from zope.interface.declarations import Declaration
        from zope.interface.interface import InterfaceClass
        from zope.interface.interface import Specification
        kind = self.kinds[i]
        bs = tuple(self.spec[b] for b in bases)
        name = '%s_%d_%s' % (self.tag, i, uniq('n'))
        if kind == 'I':
            s = InterfaceClass(name, bs, {}, __module__='verif.c02')
        elif kind == 'S':
            s = Specification(bs)
        elif kind == 'D':
            s = Declaration()
            s.__bases__ = bs
        elif kind == 'C':
            cls = type('K' + name, (), {})
            s = implementedBy(cls)
            s.__bases__ = bs
            self.holder[i] = cls
        elif kind == 'P':
            cls = type('K' + name, (), {})
            ob = cls()
            directlyProvides(ob)
            s = ob.__provides__
            s.__bases__ = bs
            self.holder[i] = ob
        elif kind == 'K':
            cls = type('K' + name, (), {})
            directlyProvides(cls)
            s = cls.__provides__
            s.__bases__ = bs
            self.holder[i] = cls
        else:
            raise AssertionError(kind)
        self.spec[i] = s
        return s


def run_case(case, cfg, out):
    from zope.interface import Interface
    from zope.interface import providedBy
    from zope.interface.declarations import _empty
    from zope.interface.interface import InterfaceClass

    kinds = case['kinds']
    bases = [list(b) for b in case['bases']]
    n = len(bases)
    W = World(kinds, uniq('c02_'))
    for i in range(1, n):
        W.create(i, bases[i])
    alive = set(range(1, n))

    def topo(bs):
        order = []
        seen = set()

        def visit(x):
            if x in seen or x == 0:
                return
            seen.add(x)
            for b in bs[x]:
                visit(b)
            order.append(x)
        for x in sorted(alive):
            visit(x)
        return order

    def seqs(world, i):
        idx = {id(s): k for k, s in world.spec.items()}
        s = world.spec[i]
        return ([idx.get(id(x), -1) for x in s.__sro__],
                [idx.get(id(x), -1) for x in s.__iro__])

    def check_all(stage):
        # twin: same shape, built bottom-up, never mutated
        T = World(kinds, uniq('c02t_'))
        for i in topo(bases):
            T.create(i, bases[i])
        memo = {}
        for s_i in sorted(alive):
            S = W.spec[s_i]
            exp = models.reach(bases, s_i, memo) | {0}
            out.checks += 1
            a, b = seqs(W, s_i), seqs(T, s_i)
            if a != b:
                out.fail('twin-sro', '%s: node %d (%s) __sro__/__iro__ %r, a '
                         'freshly built graph gives %r (bases %r)' % (
                             stage, s_i, kinds[s_i], a, b, bases))
                return False
            if set(a[0]) != exp or len(a[0]) != len(exp):
                out.fail('sro-members', '%s: node %d __sro__ %r, reachable '
                         '%r (bases %r)' % (stage, s_i, a[0], sorted(exp),
                                            bases))
                return False
            for t_i in [0] + sorted(alive):
                Tt = W.spec[t_i]
                want = t_i in exp
                got = {
                    'isOrExtends': S.isOrExtends(Tt),
                    'extends_nonstrict': S.extends(Tt, strict=False),
                    'extends': S.extends(Tt),
                    'in_sro': any(x is Tt for x in S.__sro__),
                }
                wants = {'isOrExtends': want, 'extends_nonstrict': want,
                         'extends': want and t_i != s_i, 'in_sro': want}
                if kinds[s_i] != 'I':
                    got['call'] = S(Tt)
                    wants['call'] = want
                if kinds[s_i] in 'PK':
                    ob = W.holder[s_i]
                    if providedBy(ob) is not S:
                        out.fail('holder', '%s: providedBy(holder of %d) is '
                                 'not its declaration' % (stage, s_i))
                        return False
                    got['providedBy'] = Tt.providedBy(ob)
                    wants['providedBy'] = want
                if kinds[s_i] == 'C':
                    got['implementedBy'] = Tt.implementedBy(W.holder[s_i])
                    wants['implementedBy'] = want
                for k in wants:
                    if bool(got[k]) != wants[k]:
                        out.fail('reach-' + k, '%s: node %d (%s) %s node %d '
                                 '(%s) is %r, reachability says %r (bases %r)'
                                 % (stage, s_i, kinds[s_i], k, t_i,
                                    kinds[t_i], got[k], wants[k], bases))
                        return False
                # the twin must answer identically
                if bool(T.spec[s_i].isOrExtends(T.spec[t_i])) != want:
                    out.fail('twin-reach', '%s: fresh graph node %d '
                             'isOrExtends %d' % (stage, s_i, t_i))
                    return False
        return True

    if not check_all('built'):
        return

    watchers = []       # kept alive: dependents are weakly referenced

    def pick_bases(i, picks):
        live = sorted(alive)
        desc = models.descendants(bases, i)
        cands = [j for j in live if j not in desc and (
            kinds[j] == 'I' if kinds[i] == 'I' else kinds[j] in 'ICDS')]
        nb = []
        for x in picks:
            if cands:
                c = cands[x % len(cands)]
                if c not in nb:
                    nb.append(c)
        return nb

    class Watcher:
        def __init__(self, target, picks):
            self.target, self.picks, self.fired = target, picks, False

        def changed(self, originally_changed):
            if self.fired or self.target not in alive:
                return
            self.fired = True
            # the model already holds the bases of the assignment that is
            # propagating (they were stored before it started)
            nb = pick_bases(self.target, self.picks)
            bases[self.target] = nb
            out.tag('nested_rebase')
            W.spec[self.target].__bases__ = tuple(W.spec[b] for b in nb)

    for k, op in enumerate(case['ops']):
        kind = op[0]
        live = sorted(alive)
        if not live:
            break
        if kind == 'query':
            if not check_all('query %d' % k):
                return
            continue
        if kind == 'watch':
            i = live[op[1] % len(live)]
            # prefer to re-base something above the watched node's new
            # surroundings: any live node will do, cycles are excluded when
            # the watcher fires
            w = Watcher(live[op[2] % len(live)], op[3])
            watchers.append(w)
            W.spec[i].subscribe(w)
            continue
        if kind in ('rebase', 'mode'):
            # aim at nodes that have dependents two levels down
            deep = [j for j in live
                    if any(j in bases[a] and any(a in bases[b] for b in live)
                           for a in live)]
            pool = live + deep * 3
            i = pool[op[1] % len(pool)]
        else:
            i = live[op[1] % len(live)]
        if kind == 'empty':
            target = W.spec[i]
            try:
                _empty.__bases__ = (target,)
                out.fail('empty-mutable', 'assigning bases to the shared '
                         'empty declaration did not raise')
                return
            except TypeError:
                pass
            if _empty.__bases__ != () or _empty.isOrExtends(target) or \
                    list(_empty.__sro__) != [_empty, Interface] or \
                    not _empty.isOrExtends(Interface):
                out.fail('empty-changed', 'shared empty declaration changed')
                return
            continue
        if kind == 'drop':
            if any(i in bases[j] for j in alive):
                continue        # not a leaf
            alive.discard(i)
            bases[i] = []
            W.spec.pop(i)
            W.holder.pop(i, None)
            gc.collect()
            out.tag('drop')
        else:
            if kind == 'rebase':
                desc = models.descendants(bases, i)
                cands = [j for j in live if j not in desc and (
                    kinds[j] == 'I' if kinds[i] == 'I' else kinds[j] in 'ICDS')]
                nb = []
                for x in op[2]:
                    if cands:
                        c = cands[x % len(cands)]
                        if c not in nb:
                            nb.append(c)
            elif op[2] == 'same':
                nb = list(bases[i])
            elif op[2] == 'reverse':
                nb = list(reversed(bases[i]))
            elif op[2] == 'rotate':
                nb = bases[i][1:] + bases[i][:1]
            else:
                nb = []
            before = {j: models.reach(bases, j) for j in alive}
            bases[i] = nb
            after = {j: models.reach(bases, j) for j in alive}
            # non-trivial: answer flips for a node >= 2 edges below i
            direct = {j for j in alive if i in bases[j]}
            for j in alive:
                if j != i and j not in direct and before[j] != after[j] \
                        and i in after[j]:
                    out.nontrivial = True
            W.spec[i].__bases__ = tuple(W.spec[b] for b in nb)
            out.tag('rebase_' + kinds[i])
        if not check_all('after op %d %r' % (k, op)):
            return
