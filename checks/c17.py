"""C17 verifyObject/verifyClass accept exactly the candidates meeting the
contract."""
import inspect

from hypothesis import strategies as st

from vlib.core import uniq

RULE = ('(i) complete grid: interface method signature (required 0-3, '
        'optional 0-2, *args, **kw) x implementation signature (required 0-4, '
        'optional 0-3, *args, **kw) x mode {function on the instance, bound '
        'method, verifyClass, staticmethod} = 15360 pairs, plus methods whose '
        'self is swallowed by *args or defaulted, oracle = '
        'inspect.signature(impl).bind over every call shape the interface '
        'admits; (ii) Hypothesis-generated interface hierarchies and candidates '
        'with several simultaneous faults, oracle = expected set of individual '
        'failures; non-trivial = grid pair decided by exactly one of the four '
        'arity rules, or a candidate with >=2 faults; distinct by SHA-1')

EXHAUSTIVE = True
MODES = ['inst_func', 'bound', 'class', 'static',
         # methods whose first parameter is not a plain required one: self
         # swallowed by *args (a pass-through wrapper) or defaulted
         # (seed C17f)
         'bound_starself', 'bound_defself', 'class_starself',
         # every positional parameter of the implementation positional-only
         'bound_posonly']


def configs(tier, seed):
    out = []
    for impl in ('c', 'py'):
        for m in MODES:
            out.append({'name': '%s-grid-%s' % (impl, m), 'impl': impl,
                        'mode': 'enum', 'grid_mode': m})
        out.append({'name': impl + '-multi', 'impl': impl, 'mode': 'hyp',
                    'n': 4000 if tier == 'quick' else 20000})
    return out


def coverage_extra(tier):
    return {'partitions': {'signature grid 48 x 80 x 4 modes':
                           {'exhaustive': True}}}


def enumerate_cases(cfg):
    mode = cfg['grid_mode']
    if mode in ('bound_starself', 'class_starself', 'bound_defself'):
        for ir in range(4):
            for io in range(3):
                for iv in (0, 1):
                    for ik in (0, 1):
                        for mo in (range(1) if 'starself' in mode
                                   else range(4)):
                            for mv in ((1,) if 'starself' in mode
                                       else (0, 1)):
                                for mk in (0, 1):
                                    yield {'t': 'grid', 'mode': mode,
                                           'iface': [ir, io, iv, ik],
                                           'impl': [0, mo, mv, mk]}
        return
    for ir in range(4):
        for io in range(3):
            for iv in (0, 1):
                for ik in (0, 1):
                    for mr in range(5):
                        for mo in range(4):
                            for mv in (0, 1):
                                for mk in (0, 1):
                                    yield {'t': 'grid', 'mode': mode,
                                           'iface': [ir, io, iv, ik],
                                           'impl': [mr, mo, mv, mk]}


def _sig_src(r, o, v, k, prefix, with_self=False):
    parts = ['self'] if with_self else []
    parts += ['%sr%d' % (prefix, i) for i in range(r)]
    parts += ['%so%d=None' % (prefix, i) for i in range(o)]
    if v:
        parts.append('*%sargs' % prefix)
    if k:
        parts.append('**%skw' % prefix)
    return ', '.join(parts)


def _compile(name, sig):
    ns = {}
    exec('def %s(%s):\n    pass\n' % (name, sig), ns)
    return ns[name]


def _binds(sig, npos, extra_kw):
    args = [None] * npos
    kwargs = {'zz_no_such_parameter': 1} if extra_kw else {}
    try:
        sig.bind(*args, **kwargs)
        return True
    except TypeError:
        return False


def _shapes(ir, io, iv, ik, impl_positional):
    shapes = []
    arities = list(range(ir, ir + io + 1))
    if iv:
        # "arbitrary" surplus: more than the implementation could ever bind
        # without *args
        arities.append(max(ir + io, impl_positional) + 3)
    for a in arities:
        shapes.append((a, False))
        if ik:
            shapes.append((a, True))
    return shapes


def _grid_case(case, out):
    from zope.interface import Interface
    from zope.interface import implementer
    from zope.interface import directlyProvides
    from zope.interface.exceptions import BrokenMethodImplementation
    from zope.interface.exceptions import Invalid
    from zope.interface.interface import InterfaceClass
    from zope.interface.verify import verifyClass
    from zope.interface.verify import verifyObject

    ir, io, iv, ik = case['iface']
    mr, mo, mv, mk = case['impl']
    mode = case['mode']
    ifunc = _compile('meth', _sig_src(ir, io, iv, ik, 'i'))
    iface = InterfaceClass(uniq('IC17_'), (Interface,), {'meth': ifunc},
                           __module__='verif.c17')
    with_self = mode in ('bound', 'class')
    if mode in ('bound_starself', 'class_starself'):
        ns = {}
        # with and without a local variable (co_varnames is what the
        # description is computed from)
        exec('def meth(%s):\n    %s\n' % (
            _sig_src(0, 0, 1, mk, 'm'),
            'result = None\n    return result' if (ir + io) % 2 else 'pass'),
            ns)
        mfunc = ns['meth']
    elif mode == 'bound_defself':
        ns = {}
        exec('def meth(self=None%s):\n    result = None\n    return result'
             '\n' % ''.join(', ' + p for p in
                            [_sig_src(0, mo, mv, mk, 'm')] if p), ns)
        mfunc = ns['meth']
    elif mode == 'bound_posonly':
        parts = ['self'] + ['mr%d' % i for i in range(mr)] + \
            ['mo%d=None' % i for i in range(mo)] + ['/']
        if mv:
            parts.append('*margs')
        if mk:
            parts.append('**mkw')
        mfunc = _compile('meth', ', '.join(parts))
    else:
        mfunc = _compile('meth', _sig_src(mr, mo, mv, mk, 'm', with_self))

    if mode == 'inst_func':
        cls = implementer(iface)(type('Cand', (), {}))
        cand = cls()
        cand.meth = mfunc
        callsig = inspect.signature(mfunc)
        verify = verifyObject
    elif mode in ('bound', 'bound_starself', 'bound_defself',
                  'bound_posonly'):
        cls = implementer(iface)(type('Cand', (), {'meth': mfunc}))
        cand = cls()
        callsig = inspect.signature(cand.meth)
        verify = verifyObject
    elif mode in ('class', 'class_starself'):
        cls = implementer(iface)(type('Cand', (), {'meth': mfunc}))
        cand = cls
        callsig = inspect.signature(cls().meth)
        verify = verifyClass
    elif mode == 'static':
        cls = implementer(iface)(type('Cand', (),
                                      {'meth': staticmethod(mfunc)}))
        cand = cls()
        callsig = inspect.signature(cand.meth)
        verify = verifyObject
    else:
        raise AssertionError(mode)

    shapes = _shapes(ir, io, iv, ik, mr + mo)
    ok = all(_binds(callsig, a, kw) for a, kw in shapes)
    # which of the four rules speak
    rules = [mr > ir, (mr + mo < ir + io) and not mv, bool(ik and not mk),
             bool(iv and not mv)]
    if sum(rules) == 1:
        out.nontrivial = True
    out.tag('accept' if ok else 'reject')
    out.checks += 1
    try:
        res = verify(iface, cand)
        got = True
        if res is not True:
            out.fail('verify-result', 'returned %r' % (res,))
    except BrokenMethodImplementation as e:
        got = False
        if getattr(e.method, '__name__', e.method) != 'meth':
            out.fail('wrong-method-reported', repr(e))
    except Invalid as e:
        out.fail('unexpected-invalid', '%s: %r' % (type(e).__name__, e))
        return
    if got != ok:
        out.fail('accept-mismatch-' + mode,
                 'interface meth(%s), implementation meth(%s), mode %s: '
                 'verification %s but call shapes %s' % (
                     _sig_src(ir, io, iv, ik, 'i'),
                     str(inspect.signature(mfunc)), mode,
                     'succeeded' if got else 'failed',
                     'all bind' if ok else 'do not all bind: %r' % (
                         [(a, kw) for a, kw in shapes
                          if not _binds(callsig, a, kw)],)))


# --- multi error part -----------------------------------------------------

_sigs = st.tuples(st.integers(0, 2), st.integers(0, 2), st.booleans(),
                  st.booleans()).map(list)


@st.composite
def multi_strategy(draw):
    nif = draw(st.integers(1, 4))
    ifaces = []
    for i in range(nif):
        bases = draw(st.lists(st.integers(0, i - 1), max_size=2,
                              unique=True)) if i else []
        nel = draw(st.integers(0, 3))
        elems = []
        for e in range(nel):
            name = draw(st.sampled_from(['a', 'b', 'c', 'd', 'e', 'f']))
            kind = draw(st.sampled_from(['attr', 'meth', 'meth']))
            # 4th element: the description carries a name of its own that
            # differs from the name it is registered under (one description
            # bound to two names, a description taken from another
            # interface, Attribute("Word.")) - the interface's name counts
            # (seed C17h)
            elems.append([name, kind, draw(_sigs),
                          draw(st.integers(0, 3)) == 0])
        ifaces.append({'bases': bases, 'elems': elems})
    cand = {}
    for name in 'abcdef':
        cand[name] = draw(st.sampled_from(
            ['missing', 'value', 'value', 'goodmeth', 'goodmeth', 'badmeth',
             'callable_obj', 'property']))
    return {'t': 'multi', 'ifaces': ifaces, 'cand': cand,
            'badsig': draw(_sigs),
            'declared': draw(st.sampled_from([True, True, False])),
            'tentative': draw(st.booleans()),
            'vmode': draw(st.sampled_from(['object', 'object', 'class',
                                           'provider'])),
            'target': draw(st.integers(0, 3))}


def strategy(cfg):
    return multi_strategy()


def _multi_case(case, out):
    from zope.interface import Attribute
    from zope.interface import Interface
    from zope.interface import classImplements
    from zope.interface.exceptions import BrokenImplementation
    from zope.interface.exceptions import BrokenMethodImplementation
    from zope.interface.exceptions import DoesNotImplement
    from zope.interface.exceptions import Invalid
    from zope.interface.exceptions import MultipleInvalid
    from zope.interface.interface import InterfaceClass
    from zope.interface.verify import verifyClass
    from zope.interface.verify import verifyObject

    built = []
    for i, spec in enumerate(case['ifaces']):
        attrs = {}
        for el in spec['elems']:
            name, kind, sig = el[:3]
            alias = len(el) > 3 and el[3]
            if kind == 'attr':
                attrs[name] = Attribute('other_' + name if alias else name)
            elif alias:
                from zope.interface.interface import fromFunction
                attrs[name] = fromFunction(
                    _compile(name, _sig_src(*[int(x) for x in sig], 'i')),
                    name='other_' + name)
                out.tag('aliased_description')
            else:
                attrs[name] = _compile(name, _sig_src(*[int(x) for x in sig],
                                                      'i'))
        bases = tuple(built[b] for b in spec['bases']) or (Interface,)
        try:
            built.append(InterfaceClass(uniq('IM17_'), bases, attrs,
                                        __module__='verif.c17'))
        except TypeError:
            # inconsistent base order can be refused in strict mode only;
            # non-strict never raises
            raise
    iface = built[case['target'] % len(built)]
    vmode = case['vmode']
    vclass = vmode == 'class'
    provider = vmode == 'provider'

    # expected descriptions: first definer along __iro__ (C15 judges that);
    # here only *which names* and *method or attribute*
    expected_desc = {}
    for i_ in iface.__iro__:
        for n in i_.names():
            expected_desc.setdefault(n, i_.direct(n))

    # candidate
    body = {}
    goodsig = {}
    for name, how in case['cand'].items():
        desc = expected_desc.get(name)
        if how == 'missing':
            continue
        if how == 'value':
            body[name] = 42
        elif how == 'property':
            body[name] = property(lambda self: 42)
        elif how == 'callable_obj':
            body[name] = type('Callable', (), {
                '__call__': lambda self, *a, **k: None})()
        elif how == 'goodmeth':
            if provider:
                body[name] = staticmethod(_compile(name, '*args, **kw'))
            else:
                body[name] = _compile(name, 'self, *args, **kw')
        elif how == 'badmeth':
            if provider:
                body[name] = staticmethod(_compile(name, _sig_src(
                    *[int(x) for x in case['badsig']], 'm', False)))
            else:
                body[name] = _compile(name, _sig_src(
                    *[int(x) for x in case['badsig']], 'm', True))
    cls = type('Cand', (), body)
    if case['declared']:
        if provider:
            from zope.interface import directlyProvides
            directlyProvides(cls, iface)
        else:
            classImplements(cls, iface)
    cand = cls if (vclass or provider) else cls()

    from zope.interface.interface import Method
    exp = []
    if not case['tentative'] and not case['declared']:
        exp.append(('DoesNotImplement', None))

    br, bo, bv, bk = [int(x) for x in case['badsig']]
    for name, desc in expected_desc.items():
        how = case['cand'][name]
        is_method = isinstance(desc, Method)
        if how == 'missing':
            if not is_method and vclass:
                continue
            exp.append(('BrokenImplementation', desc.getName()))
            continue
        if not is_method:
            continue
        if how == 'value':
            exp.append(('BrokenMethodImplementation', desc.getName()))
        elif how == 'property':
            if vclass:
                continue   # cannot be judged without an instance
            # instance: the property yields 42; class object: the property
            # object itself - neither is callable
            exp.append(('BrokenMethodImplementation', desc.getName()))
        elif how == 'callable_obj':
            continue       # cannot be introspected: passes
        elif how == 'goodmeth':
            continue
        elif how == 'badmeth':
            info = desc.getSignatureInfo()
            ir, io = len(info['required']), len(info['optional'])
            iv, ik = bool(info['varargs']), bool(info['kwargs'])
            callsig = inspect.signature(
                getattr(cls if provider else cls(), name))
            shapes = _shapes(ir, io, iv, ik, br + bo)
            if not all(_binds(callsig, a, kw) for a, kw in shapes):
                exp.append(('BrokenMethodImplementation', desc.getName()))
    if len(exp) >= 2:
        out.nontrivial = True
    out.tag('faults_%d' % min(len(exp), 4), 'vmode_' + vmode)
    out.checks += 1
    verify = verifyClass if vclass else verifyObject

    def key(e):
        if isinstance(e, DoesNotImplement):
            return ('DoesNotImplement', None)
        if isinstance(e, BrokenMethodImplementation):
            return ('BrokenMethodImplementation',
                    getattr(e.method, '__name__', e.method))
        if isinstance(e, BrokenImplementation):
            return ('BrokenImplementation',
                    getattr(e.name, '__name__', e.name))
        return (type(e).__name__, None)

    try:
        res = verify(iface, cand, tentative=case['tentative'])
        got = []
        if res is not True:
            out.fail('verify-result', 'returned %r' % (res,))
    except MultipleInvalid as e:
        got = [key(x) for x in e.exceptions]
        if len(got) < 2:
            out.fail('multiple-with-one', 'MultipleInvalid carrying %r' % got)
    except Invalid as e:
        got = [key(e)]
    if sorted(got, key=repr) != sorted(exp, key=repr):
        out.fail('failure-set', 'verify%s reported %r, expected %r (case %r)'
                 % (vmode, sorted(got, key=repr),
                    sorted(exp, key=repr), case))


def run_case(case, cfg, out):
    if case['t'] == 'grid':
        _grid_case(case, out)
    else:
        _multi_case(case, out)
