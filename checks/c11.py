"""C11 Lookups stay memory-safe and atomic when other code mutates the
registry.

Four generated campaigns (cfg['kind']):

inject   a callback point inside one lookup (lazy ``required``, overridden
         ``_uncached_*`` before/after the real computation, ``__providedBy__``
         / ``__provides__`` descriptor, ``__conform__``, factory/subscriber
         call, ``_generation`` property of a base registry) runs a generated
         action (mutations of every kind, nested lookups, raise).  Oracle:
         ownership audit of the cache containers, answer = twin answer before
         or after the mutation, every later answer = twin answer.
preempt  operation X runs under ``sys.settrace`` with per-opcode events for
         zope.interface's own Python frames; at event k a complete operation Y
         runs inline (what a thread switch at that boundary does).  k is
         enumerated.  Same oracle, plus: no exception out of X or Y.
leak     each (entry point, outcome) repeated; reference counts of all
         per-case objects and the number of gc objects must not grow.
stress   real threads (switch interval 1 us): lookup threads only, and lookup
         threads against one mutator cycling through a finite list of states;
         answers must belong to the union of the per-state answers, no
         exception in a lookup thread, the process must survive.
"""
import gc
import os
import sys
import threading
import time

from hypothesis import strategies as st

from vlib import models
from vlib import reguniv
from vlib.reguniv import IDX
from vlib.reguniv import NAMES
from vlib.reguniv import Universe
from vlib.reguniv import Val

RULE = ('inject: generated registry contents (chains of 1-3 registries, both '
        'flavours) x entry point (9 + Interface.__call__ through the '
        'registry hook) x callback point (lazy required, _uncached_* '
        'before/after, __providedBy__/__provides__ descriptors, __conform__, '
        'factory/subscriber, _generation property) x action (targeted/free '
        'register, unregister, subscribe, unsubscribe, changed(), registry '
        're-base, rebuild(), declaration/interface change of the looked-up '
        'spec, nested lookup, raise, mutate-then-raise) x cold/warm cache, '
        'followed by 0-2 further mutations; preempt: X under per-opcode '
        'tracing with Y run inline at opcode event k, k enumerated, both '
        'directions (lookup interrupted by mutator/lookup, mutator '
        'interrupted by lookup); leak: 40 repetitions per cell; stress: '
        '2-8 threads.  Non-trivial = the injected/interleaved mutation '
        'changes the twin answer of the interrupted key (inject, preempt), '
        'cell with a cache miss per repetition or an exception (leak), run '
        'with a mutator whose states have different answers (stress); '
        'distinct by SHA-1')
GC_EVERY = 10
LOW_NT_OK = False
LEVEL = 'fault_enumeration'

SPEC_ENTRY = ['lookup', 'lookup1', 'lookupAll', 'names', 'subscriptions']
OBJ_ENTRY = ['queryAdapter', 'adapter_hook', 'queryMultiAdapter',
             'subscribers', 'call']
ENTRY = SPEC_ENTRY + OBJ_ENTRY
POINTS = {
    'lazy_required': ['lookup', 'lookupAll', 'names', 'subscriptions'],
    'uncached_before': ENTRY,
    'uncached_after': ENTRY,
    'providedBy': OBJ_ENTRY,
    'provides': OBJ_ENTRY,
    'conform': ['call'],
    'factory': OBJ_ENTRY,
    'generation': ENTRY,
    # the reads of base generations made inside changed(), i.e. after a
    # verifying lookup has found out that a base registry changed
    'generation_changed': ENTRY,
}
CELLS = [(e, p) for p, es in sorted(POINTS.items()) for e in es]


def configs(tier, seed):
    out = []
    if tier == 'quick':
        for impl in ('c', 'py'):
            out.append({'name': impl + '-inject', 'impl': impl, 'mode': 'hyp',
                        'kind': 'inject', 'n': 3000, 'journal': True})
            out.append({'name': impl + '-preempt', 'impl': impl,
                        'mode': 'hyp', 'kind': 'preempt', 'n': 400,
                        'kmax': 120, 'journal': True})
            out.append({'name': impl + '-leak', 'impl': impl, 'mode': 'hyp',
                        'kind': 'leak', 'n': 300, 'reps': 40,
                        'journal': True})
            out.append({'name': impl + '-preempt2', 'impl': impl,
                        'mode': 'hyp', 'kind': 'preempt2', 'n': 250,
                        'kmax': 120, 'journal': True})
            out.append({'name': impl + '-sched', 'impl': impl, 'mode': 'hyp',
                        'kind': 'sched', 'n': 1200, 'journal': True})
            out.append({'name': impl + '-stress', 'impl': impl, 'mode': 'hyp',
                        'kind': 'stress', 'n': 6, 'dur': 2.0,
                        'journal': True, 'shrink_calls': 3})
        return out
    for impl in ('c', 'py'):
        for shard in range(3):
            out.append({'name': '%s-inject-%d' % (impl, shard), 'impl': impl,
                        'mode': 'hyp', 'kind': 'inject', 'n': 8000,
                        'shard': shard, 'journal': True})
            out.append({'name': '%s-preempt-%d' % (impl, shard),
                        'impl': impl, 'mode': 'hyp', 'kind': 'preempt',
                        'n': 250, 'kmax': 100000, 'shard': shard,
                        'journal': True})
        out.append({'name': impl + '-leak', 'impl': impl, 'mode': 'hyp',
                    'kind': 'leak', 'n': 1500, 'reps': 60, 'journal': True})
        for shard in range(2):
            out.append({'name': '%s-preempt2-%d' % (impl, shard),
                        'impl': impl, 'mode': 'hyp', 'kind': 'preempt2',
                        'n': 400, 'kmax': 100000, 'shard': shard,
                        'journal': True})
            out.append({'name': '%s-sched-%d' % (impl, shard), 'impl': impl,
                        'mode': 'hyp', 'kind': 'sched', 'n': 6000,
                        'shard': shard, 'journal': True})
        for shard in range(2):
            out.append({'name': '%s-stress-%d' % (impl, shard), 'impl': impl,
                        'mode': 'hyp', 'kind': 'stress', 'n': 12, 'dur': 5.0,
                        'shard': shard, 'journal': True, 'shrink_calls': 3})
    # AddressSanitizer build of the C extension: real frees (the audit,
    # which keeps containers alive, is switched off)
    out.append({'name': 'c-asan-inject', 'impl': 'c', 'asan': True,
                'mode': 'hyp', 'kind': 'inject', 'n': 3000, 'audit': False,
                'journal': True})
    out.append({'name': 'c-asan-stress', 'impl': 'c', 'asan': True,
                'mode': 'hyp', 'kind': 'stress', 'n': 8, 'dur': 5.0,
                'journal': True, 'shrink_calls': 3})
    return out


def accepts(rec, cfg):
    case = rec.get('case') or {}
    return case.get('kind') == cfg.get('kind')


# ---------------------------------------------------------------------------
# generators


def objref():
    return st.one_of(st.tuples(st.just('o'), IDX).map(list),
                     st.tuples(st.just('o'), IDX).map(list),
                     st.tuples(st.just('i'), IDX).map(list),
                     st.tuples(st.just('c'), IDX).map(list))


@st.composite
def content_op(draw):
    k = draw(st.sampled_from(['treg'] * 5 + ['reg'] * 2 + ['tsub'] * 3 +
                             ['sub'] + ['regfor', 'subfor']))
    if k == 'treg':
        return ['treg', draw(IDX), draw(st.integers(0, 40)),
                draw(st.integers(0, 40)), draw(st.booleans()),
                draw(st.integers(0, 9)) == 0]
    if k == 'reg':
        return ['reg', draw(IDX), draw(reguniv.reg_key_biased(2)), draw(IDX),
                draw(st.sampled_from(NAMES + [''])), False]
    if k == 'tsub':
        return ['tsub', draw(IDX), draw(st.integers(0, 40)),
                draw(st.integers(0, 9)) == 0]
    if k == 'sub':
        return ['sub', draw(IDX), draw(reguniv.reg_key_biased(2)),
                draw(st.one_of(st.none(), IDX)), False]
    return [k, draw(IDX), draw(IDX)]


@st.composite
def mutation_op(draw, allow_spec=True, allow_rebuild=True):
    kinds = (['treg'] * 5 + ['reg'] + ['unreg'] * 4 + ['tsub'] * 3 +
             ['unsub'] * 3 + ['changed'] * 2 + ['rbases'] * 2)
    if allow_rebuild:
        kinds += ['rebuild']
    if allow_spec:
        kinds += ['spec'] * 3
    kinds += ['itoggle'] * 2
    k = draw(st.sampled_from(kinds))
    if k in ('treg', 'reg', 'tsub'):
        op = draw(content_op().filter(lambda o: o[0] == k))
        return op
    if k == 'unreg':
        return ['unreg', draw(IDX)]
    if k == 'unsub':
        return ['unsub', draw(IDX), draw(st.booleans())]
    if k == 'changed':
        return ['changed', draw(IDX)]
    if k == 'rbases':
        return ['rbases', draw(IDX), draw(st.lists(IDX, max_size=2))]
    if k == 'rebuild':
        return ['rebuild', draw(IDX)]
    if k == 'spec':
        return ['spec', draw(st.integers(0, 3)),
                draw(st.lists(IDX, min_size=1, max_size=2)),
                draw(st.integers(0, 3))]
    return ['itoggle', draw(st.integers(0, 40)), draw(IDX)]


@st.composite
def key_strategy(draw, min_arity=0, bp=None):
    arity = max(min_arity, draw(st.sampled_from([0, 1, 1, 1, 1, 2, 2])))
    refs = [draw(objref()) for _ in range(arity)]
    p = draw(IDX)
    if bp is not None and bp.get('pfan') and draw(st.integers(0, 9)) < 7:
        p = 0               # the interface every other provided one extends
    return [draw(IDX), refs, p, draw(st.sampled_from(NAMES + ['', '']))]


@st.composite
def base_case(draw, max_regs=3, force_chain=False):
    bp = draw(reguniv.blueprint(max_regs=max_regs, max_classes=3,
                                max_insts=3))
    if not bp['classes']:
        bp['classes'] = [{'bases': [], 'implements': [0], 'only': False}]
    if not bp['insts']:
        bp['insts'] = [{'cls': 0, 'direct': []}]
    # provided side: half of the time a fan (several unrelated interfaces
    # extending one base), so that lookups for the base walk a list of
    # several extendors which registrations and unregistrations reshape
    if draw(st.booleans()):
        nP = max(3, len(bp['pbases']))
        bp['pbases'] = [[]] + [
            [0] if draw(st.integers(0, 3)) else [i - 1]
            for i in range(1, nP)]
        bp['pfan'] = True
    contents = [draw(content_op())
                for _ in range(draw(st.integers(1, 10)))]
    return bp, contents


@st.composite
def inject_case(draw):
    bp, contents = draw(base_case())
    entry, point = draw(st.sampled_from(CELLS))
    key = draw(key_strategy(1 if entry in ('lookup1', 'queryAdapter',
                                            'adapter_hook', 'call') else 0,
                            bp))
    if point in ('generation', 'generation_changed'):
        # needs a verifying registry with at least one base
        while len(bp['regs']) < 2:
            bp['regs'].append({'bases': [len(bp['regs']) - 1],
                               'flavour': 'verifying'})
        bp['regs'][-1]['flavour'] = 'verifying'
        if not bp['regs'][-1]['bases']:
            bp['regs'][-1]['bases'] = [len(bp['regs']) - 2]
        if draw(st.booleans()) and len(bp['regs']) == 2:
            bp['regs'].append({'bases': [1], 'flavour': 'verifying'})
        key[0] = len(bp['regs']) - 1
    nact = draw(st.sampled_from([1, 1, 1, 2]))
    action = []
    for _ in range(nact):
        if draw(st.integers(0, 5)) == 0:
            action.append(['nested', draw(st.sampled_from(ENTRY[:9])),
                           draw(st.booleans()), draw(key_strategy())])
        else:
            action.append(draw(mutation_op()))
    if draw(st.integers(0, 3)) == 0 or (
            point in ('generation', 'generation_changed') and
            draw(st.booleans())):
        # recipe: the callback first looks the interrupted key up itself
        # (filling the caches from the state of that moment) and then
        # changes a registry of the chain - in a base registry, which a
        # verifying registry only notices through the generations it
        # reads (seed C11g: generations recorded for a cache filled
        # before the mutation)
        t = draw(content_op().filter(lambda o: o[0] in ('treg', 'tsub')))
        if draw(st.integers(0, 3)):
            t[1] = draw(st.sampled_from([1, 1, 2]))    # a base, not itself
        action = [['nested', draw(st.sampled_from(ENTRY[:9])), True, key],
                  t]
        if draw(st.integers(0, 4)) == 0:
            action.reverse()
    followup = [draw(mutation_op())
                for _ in range(draw(st.integers(0, 2)))]
    if point in ('generation', 'generation_changed') and \
            draw(st.integers(0, 3)) == 0:
        # recipe: while the verifying registry reads a base's generation,
        # the registry itself is given other bases; afterwards something
        # is registered in the NEW base: the registry has to notice (what it
        # recorded during the interrupted refresh must not describe the old
        # chain - seed C11j).  Two tops that answer differently.
        top = draw(st.sampled_from(['plain', 'verifying']))
        bp['regs'] = [{'bases': [], 'flavour': top},
                      {'bases': [], 'flavour': top},
                      {'bases': [0], 'flavour': 'verifying'}]
        key[0] = 2
        arity = len(key[1])
        contents = contents + [
            ['reg', 0, [['N']] * arity, key[2], key[3], False],
            ['reg', 1, [['N']] * arity, key[2], key[3], False]]
        action = [['rbases', 2, [1]]]
        if draw(st.booleans()):
            action.append(['nested', entry if entry != 'call' else 'lookup',
                           True, key])
        followup = [draw(content_op().filter(
            lambda o: o[0] in ('treg', 'tsub')))]
        followup[0][1] = 1          # chain index 1: the (new) first base
        if draw(st.booleans()):
            followup.append(draw(mutation_op()))
    warm = draw(st.lists(st.tuples(st.sampled_from(ENTRY[:9]),
                                   st.booleans()).map(list), max_size=3))
    return {'kind': 'inject', 'bp': bp, 'contents': contents,
            'entry': entry, 'point': point, 'key': key, 'action': action,
            'then_raise': draw(st.integers(0, 5)) == 0,
            'skip': draw(st.sampled_from(
                [0, 0, 1, 2, 3, 4] if point == 'generation'
                else [0, 0, 0, 1] if point == 'generation_changed'
                else [0, 0, 0, 0, 0, 1])),
            'bump': draw(st.booleans()) or point == 'generation_changed',
            'warm': warm,
            'followup': followup}


@st.composite
def preempt_case(draw):
    bp, contents = draw(base_case())
    # interface toggles are the follow-up that shows a lost subscription:
    # make sure something is registered for other interfaces
    contents += [[draw(st.sampled_from(['regfor', 'subfor'])), draw(IDX),
                  draw(IDX)] for _ in range(draw(st.integers(1, 3)))]
    entry = draw(st.sampled_from(ENTRY[:9]))
    key = draw(key_strategy(1, bp))
    direction = draw(st.sampled_from(['LM', 'LM', 'ML', 'ML', 'LL']))
    # rebuild() interrupts lookups but is not itself claimed to look atomic
    # to a concurrent reader (it replaces every internal structure)
    mut = draw(mutation_op(allow_spec=False,
                           allow_rebuild=(direction == 'LM')))
    if draw(st.integers(0, 3)) == 0 and direction in ('ML', 'LM'):
        # a specification changing while lookups subscribe to it, or while
        # a lookup walks the registries (nothing computed from the old
        # orders may stay cached)
        mut = ['itoggle', draw(st.integers(0, 40)), draw(IDX)]
    warm = draw(st.lists(st.tuples(st.sampled_from(ENTRY[:9]),
                                   st.booleans()).map(list), max_size=2))
    return {'kind': 'preempt', 'bp': bp, 'contents': contents,
            'entry': entry, 'key': key, 'mut': mut, 'dir': direction,
            'entry2': draw(st.sampled_from(ENTRY[:9])),
            'same2': draw(st.booleans()), 'key2': draw(key_strategy()),
            'warm': warm,
            'toggle': [draw(st.integers(0, 40)), draw(IDX)],
            'koff': draw(st.integers(0, 1000))}


@st.composite
def preempt2_case(draw):
    bp, contents = draw(base_case())
    contents += [[draw(st.sampled_from(['regfor', 'subfor'])), draw(IDX),
                  draw(IDX)] for _ in range(draw(st.integers(0, 2)))]
    # chains with a verifying registry at the bottom are where a lookup
    # runs changed() itself
    if draw(st.booleans()):
        while len(bp['regs']) < 2:
            bp['regs'].append({'bases': [len(bp['regs']) - 1],
                               'flavour': 'verifying'})
        bp['regs'][-1]['flavour'] = 'verifying'
        if not bp['regs'][-1]['bases']:
            bp['regs'][-1]['bases'] = [len(bp['regs']) - 2]
    entry = draw(st.sampled_from(ENTRY[:9]))
    key = draw(key_strategy(1, bp))
    if bp['regs'][-1]['flavour'] == 'verifying' and draw(st.booleans()):
        key[0] = len(bp['regs']) - 1

    def mut():
        return draw(mutation_op(allow_spec=False, allow_rebuild=False).filter(
            lambda o: o[0] != 'itoggle'))

    def look():
        return ['L', draw(st.sampled_from(ENTRY[:9])),
                draw(st.integers(0, 3)) == 0, draw(key_strategy(0, bp))]
    # with a verifying registry at the bottom, aim the mutations at its
    # first base half of the time: only then does the lookup find out by
    # itself (generations) instead of being told
    at_base = key[0] == len(bp['regs']) - 1 and \
        bp['regs'][-1]['flavour'] == 'verifying' and draw(st.booleans())

    def aimed(op):
        if at_base and op[0] in ('treg', 'tsub', 'changed', 'rebuild'):
            op = list(op)
            op[1] = 1          # index into the chain: the first base
        return op
    pre = [aimed(mut())] if draw(st.integers(0, 3)) else []
    if draw(st.booleans()):
        x = ['L']
        ys = draw(st.sampled_from(['LM', 'ML', 'M', 'LM', 'LL']))
    else:
        x = ['M', aimed(mut())]
        ys = draw(st.sampled_from(['L', 'LL', 'LM', 'LM', 'ML']))
        if 'M' in ys:
            # the one two-mutator shape that is kept (see run_preempt2): a
            # registry being re-based while something is registered in one
            # of its (new) bases
            if draw(st.booleans()):
                # ... starting without that base: invalidating registries
                # only (they keep track of their sub-registries), the
                # looked-up one last and without bases
                while len(bp['regs']) < 2:
                    bp['regs'].append({'bases': [], 'flavour': 'plain'})
                for r in bp['regs']:
                    r['flavour'] = 'plain'
                bp['regs'][-1]['bases'] = []
                key[0] = len(bp['regs']) - 1
            x = ['M', ['rbases', key[0], draw(st.lists(IDX, min_size=1,
                                                       max_size=2))]]
    if x[0] == 'M' and 'M' in ys:
        def elsewhere():
            # aimed at a base of the looked-up registry (index into its
            # chain as it is after the re-base)
            r = draw(st.sampled_from([1, 1, 2]))
            pick = draw(st.sampled_from([0, 0, 1, 2]))
            if draw(st.integers(0, 2)):
                return ['treg', r, pick, draw(st.integers(0, 3)), False,
                        False]
            return ['tsub', r, pick, False]
        ys = [look() if c == 'L' else ['M', elsewhere()] for c in ys]
    else:
        ys = [look() if c == 'L' else ['M', aimed(mut())] for c in ys]
    if at_base and draw(st.booleans()):
        # the scenario that needs three operations in flight: a lookup
        # that has just noticed a change of its base (pre) and is running
        # changed() itself, another lookup of the same key, and a second
        # change of the base
        def tmut():
            pick = draw(st.sampled_from([0, 0, 1, 2]))
            if draw(st.integers(0, 2)):
                return ['treg', 1, pick, draw(st.integers(0, 3)), False,
                        False]
            return ['tsub', 1, pick, False]
        pre = [tmut()]
        x = ['L']
        first = ['L', draw(st.sampled_from([entry, entry] + ENTRY[:9])),
                 False, key]
        ys = [first, ['M', tmut()]]
        contents = contents + [['treg', 1, 3, 0, False, False]]
    if draw(st.integers(0, 5)) == 0:
        # template: a verifying registry S below a middle registry M below
        # one of two tops that answer differently.  Either S's resolution
        # order is outdated (M was re-based, nobody has looked since) and S
        # itself is re-based while the lookup refreshes it, or M is
        # re-based while the lookup below it refreshes: afterwards S must
        # consult its current chain (repairs 29e531b, f64467c)
        top = draw(st.sampled_from(['plain', 'verifying']))
        mid = 'verifying' if top == 'verifying' else \
            draw(st.sampled_from(['plain', 'verifying']))
        bp['regs'] = [{'bases': [], 'flavour': top},
                      {'bases': [], 'flavour': top},
                      {'bases': [0], 'flavour': mid},
                      {'bases': [2], 'flavour': 'verifying'}]
        key[0] = 3
        arity = len(key[1])
        contents = contents + [
            ['reg', 0, [['N']] * arity, key[2], key[3], False],
            ['reg', 1, [['N']] * arity, key[2], key[3], False]]
        x = ['L']
        if draw(st.booleans()):
            pre = [['rbases', 2, [1]]]
            ys = [['M', ['rbases', 3, [draw(st.sampled_from([0, 1, 2]))]]]]
        else:
            pre = [['changed', 1]]
            ys = [['M', ['rbases', 2, [1]]]]
        if draw(st.integers(0, 2)) == 0:
            ys.append(['L', entry, False, key])
    return {'kind': 'preempt2', 'bp': bp, 'contents': contents,
            'entry': entry, 'key': key, 'pre': pre, 'x': x, 'ys': ys,
            'warm': draw(st.lists(st.sampled_from(ENTRY[:9]), max_size=2)),
            'toggle': [draw(st.integers(0, 40)), draw(IDX)],
            'koff': draw(st.integers(0, 1000))}


@st.composite
def sched_case(draw):
    bp, contents = draw(base_case())
    contents += [[draw(st.sampled_from(['regfor', 'subfor'])), draw(IDX),
                  draw(IDX)] for _ in range(draw(st.integers(0, 2)))]
    key = draw(key_strategy(1, bp))
    nlook = draw(st.sampled_from([1, 2, 2]))
    lookers = []
    for _ in range(nlook):
        lookers.append([[draw(st.sampled_from(ENTRY[:9])),
                         draw(st.integers(0, 3)) == 0,
                         draw(key_strategy())]
                        for _ in range(draw(st.integers(1, 3)))])
    muts = [draw(mutation_op(allow_spec=False, allow_rebuild=False))
            for _ in range(draw(st.integers(1, 3)))]
    nth = nlook + 1
    schedules = []
    for _ in range(draw(st.integers(1, 6))):
        schedules.append([[draw(st.integers(0, nth - 1)),
                           draw(st.sampled_from([1, 2, 3, 5, 8, 13, 21, 34,
                                                 55, 89, 144]))]
                          for _ in range(draw(st.integers(1, 12)))])
    warm = draw(st.lists(st.tuples(st.sampled_from(ENTRY[:9]),
                                   st.booleans()).map(list), max_size=2))
    return {'kind': 'sched', 'bp': bp, 'contents': contents, 'key': key,
            'lookers': lookers, 'muts': muts, 'schedules': schedules,
            'warm': warm,
            'toggle': [draw(st.integers(0, 40)), draw(IDX)]}


LEAK_MODES = ['hit', 'cold', 'badname', 'boom_lazy', 'boom_uncached',
              'boom_uncached_warm', 'boom_factory', 'boom_providedBy',
              'boom_generation', 'mutate_uncached', 'mutate_generation',
              'mutate_lazy']


@st.composite
def leak_case(draw):
    bp, contents = draw(base_case())
    entry = draw(st.sampled_from(ENTRY))
    key = draw(key_strategy(1 if entry in ('lookup1', 'queryAdapter',
                                            'adapter_hook', 'call') else 0,
                            bp))
    mode = draw(st.sampled_from(LEAK_MODES))
    if 'generation' in mode:
        while len(bp['regs']) < 3:
            bp['regs'].append({'bases': [len(bp['regs']) - 1],
                               'flavour': 'verifying'})
        for r in bp['regs'][1:]:
            r['flavour'] = 'verifying'
            if not r['bases']:
                r['bases'] = [0]
        key[0] = len(bp['regs']) - 1
    return {'kind': 'leak', 'bp': bp, 'contents': contents, 'entry': entry,
            'key': key, 'mode': mode, 'default': draw(st.booleans()),
            'skip': draw(st.integers(0, 4))}


@st.composite
def stress_case(draw):
    bp, contents = draw(base_case(max_regs=2))
    # provided side: a chain, so that no two applicable registrations are
    # unrelated and every answer is a function of the state alone
    # (otherwise the order among unrelated provided interfaces depends on
    # the history; cycles that are not periodic are set aside at run time)
    if draw(st.booleans()):
        bp['pbases'] = [[i - 1] if i else []
                        for i in range(len(bp['pbases']))]
        bp.pop('pfan', None)
    keys = [draw(key_strategy(0, bp))
            for _ in range(draw(st.integers(2, 5)))]
    cycle = [draw(st.sampled_from(['treg', 'treg', 'tsub', 'unreg',
                                   'rbases', 'itoggle']))
             for _ in range(draw(st.integers(1, 4)))]
    cyc = []
    for k in cycle:
        if k == 'treg':
            cyc.append(['treg', draw(IDX), draw(st.integers(0, 40)),
                        draw(st.integers(0, 40)), False, False])
        elif k == 'tsub':
            cyc.append(['tsub', draw(IDX), draw(st.integers(0, 40)), False])
        elif k == 'unreg':
            cyc.append(['unreg', draw(IDX)])
        elif k == 'rbases':
            cyc.append(['rbases', draw(IDX), draw(st.lists(IDX, max_size=1))])
        else:
            cyc.append(['itoggle', draw(st.integers(0, 40)), draw(IDX)])
    return {'kind': 'stress', 'bp': bp, 'contents': contents, 'keys': keys,
            'cycle': cyc, 'threads': draw(st.sampled_from([2, 3, 8])),
            'mutator': draw(st.sampled_from([True, True, False]))}


def strategy(cfg):
    return {'inject': inject_case, 'preempt': preempt_case,
            'leak': leak_case, 'stress': stress_case,
            'sched': sched_case, 'preempt2': preempt2_case}[cfg['kind']]()


# ---------------------------------------------------------------------------
# hooks: the callback points


class Boom(Exception):
    pass


class _Hook:
    point = None
    fn = None
    fired = 0

    skip = 0
    in_changed = 0

    def reset(self):
        self.point = None
        self.fn = None
        self.fired = 0
        self.skip = 0
        self.in_changed = 0

    def arm(self, point, fn, skip=0):
        self.point = point
        self.fn = fn
        self.fired = 0
        self.skip = skip


H = _Hook()


def fire(point, ctx=None):
    if H.fn is not None and H.point == point:
        if H.skip > 0:                 # fire at a later occurrence
            H.skip -= 1
            return
        fn, H.fn = H.fn, None          # one shot
        H.fired += 1
        fn(ctx)


_CLS = {}


def hooked_classes():
    if _CLS:
        return _CLS
    from zope.interface.adapter import AdapterLookup
    from zope.interface.adapter import AdapterRegistry
    from zope.interface.adapter import VerifyingAdapterLookup
    from zope.interface.adapter import VerifyingAdapterRegistry

    def mk(base):
        class Hooked(base):
            def _uncached_lookup(self, required, provided, name=''):
                fire('uncached_before', self)
                r = base._uncached_lookup(self, required, provided, name)
                fire('uncached_after', self)
                return r

            def _uncached_lookupAll(self, required, provided):
                fire('uncached_before', self)
                r = base._uncached_lookupAll(self, required, provided)
                fire('uncached_after', self)
                return r

            def _uncached_subscriptions(self, required, provided):
                fire('uncached_before', self)
                r = base._uncached_subscriptions(self, required, provided)
                fire('uncached_after', self)
                return r

            def changed(self, originally_changed=None):
                H.in_changed += 1
                try:
                    return base.changed(self, originally_changed)
                finally:
                    H.in_changed -= 1
        Hooked.__name__ = 'Hooked' + base.__name__
        return Hooked

    def _get(self):
        fire('generation', self)
        if H.in_changed:
            fire('generation_changed', self)
        return self.__dict__.get('_gen', 0)

    def _set(self, v):
        self.__dict__['_gen'] = v

    # a thread can be pre-empted while the C code reads generations
    TRACED_CODES.add(_get.__code__)

    class HPlain(AdapterRegistry):
        LookupClass = mk(AdapterLookup)
        _generation = property(_get, _set)

    class HVerifying(VerifyingAdapterRegistry):
        LookupClass = mk(VerifyingAdapterLookup)
        _generation = property(_get, _set)

    _CLS.update(plain=HPlain, verifying=HVerifying)
    return _CLS


class Factory(Val):
    __slots__ = ('returns_none',)

    def __init__(self, label, returns_none=False):
        Val.__init__(self, label)
        self.returns_none = returns_none

    def __call__(self, *objs):
        fire('factory', self)
        if self.returns_none:
            return None
        return ('made', self.label) + tuple(id(o) for o in objs)


# ---------------------------------------------------------------------------
# the world of one case


class _Default:
    def __repr__(self):
        return "'dflt'"


class World:

    def __init__(self, case, out, plain_objects=False):
        from zope.interface import providedBy
        self.case = case
        self.out = out
        H.reset()
        self.cls = hooked_classes()
        self.U = Universe(case['bp'], reg_classes=self.cls)
        out.adjusted += self.U.adjusted
        U = self.U
        self.nI = len(U.ifaces)
        self.ibases = [list(b) for b in case['bp']['ibases']]
        self.log = []
        self.regs_made = []
        self.subs_made = []
        self.counter = 0
        self.initial_bases = [list(U.model.bases[r])
                              for r in range(len(U.regs))]
        # a fresh object (a string literal is immortal: its reference
        # count would not show a leak)
        self.D = _Default()
        self._providedBy = providedBy
        self._objs = {}
        self._cinst = {}
        self._holders = {}

        world = self

        class PB:
            def __init__(self, real):
                self.real = real

            @property
            def __providedBy__(self):
                fire('providedBy', self)
                return providedBy(self.real)

            def __conform__(self, iface):
                fire('conform', self)
                return None

        class PV:
            def __init__(self, real):
                self.real = real

            @property
            def __provides__(self):
                fire('provides', self)
                return providedBy(self.real)

            def __conform__(self, iface):
                fire('conform', self)
                return None

        self.PB = PB
        self.PV = PV
        self.wrap_kind = 'PB'

    # -- references --------------------------------------------------------
    def real(self, ref):
        from zope.interface import directlyProvides
        U = self.U
        k, v = ref[0], ref[1]
        if k == 'o':
            return U.insts[v % len(U.insts)]
        if k == 'c':
            i = v % len(U.classes)
            if i not in self._cinst:
                self._cinst[i] = U.classes[i]()
            return self._cinst[i]
        i = v % self.nI
        if i not in self._holders:
            ob = type('Holder', (), {})()
            directlyProvides(ob, U.ifaces[i])
            self._holders[i] = ob
        return self._holders[i]

    def spec(self, ref):
        from zope.interface import implementedBy
        U = self.U
        k, v = ref[0], ref[1]
        if k == 'o':
            return self._providedBy(U.insts[v % len(U.insts)])
        if k == 'c':
            return implementedBy(U.classes[v % len(U.classes)])
        return U.ifaces[v % self.nI]

    def obj(self, ref):
        """the object handed to the object entry points: a wrapper whose
        __providedBy__ (or __provides__) is a callback point and answers
        with the declaration of the real object.  For 'c' and 'i'
        references the specification used by the spec entry points
        (implementedBy(cls), the interface) differs from the wrapper's
        (providedBy(instance)); keys are per entry point, so that is
        fine."""
        key = (self.wrap_kind, ref[0], ref[1])
        if key not in self._objs:
            cls = self.PB if self.wrap_kind == 'PB' else self.PV
            self._objs[key] = cls(self.real(ref))
        return self._objs[key]

    def newfactory(self, rn=False):
        self.counter += 1
        return Factory(self.counter, rn)

    # -- twin --------------------------------------------------------------
    def build(self, log=None):
        """fresh registries of the same classes with the mutation history
        replayed; never served a lookup"""
        U = self.U
        twin = [self.cls[U.flavours[r]]() for r in range(len(U.regs))]
        for r in range(len(U.regs)):
            twin[r].__bases__ = tuple(twin[b]
                                      for b in self.initial_bases[r])
        for m in (self.log if log is None else log):
            apply_concrete(twin, m)
        return twin

    # -- queries -----------------------------------------------------------
    def answer(self, regs, key, lazy=False):
        entry, r, refs, p, name = key
        reg = regs[r]
        prov = None if p is None else self.U.prov(p)
        D = self.D
        if entry in SPEC_ENTRY:
            specs = [self.spec(x) for x in refs]
            req = specs
            if lazy:
                def gen():
                    fire('lazy_required', reg)
                    yield from specs
                req = gen()
            if entry == 'lookup':
                return ('v', _lab(reg.lookup(req, prov, name, D)))
            if entry == 'lookup1':
                return ('v', _lab(reg.lookup1(specs[0], prov, name, D)))
            if entry == 'lookupAll':
                return ('all', sorted((n, _lab(v)) for n, v in
                                      reg.lookupAll(req, prov)))
            if entry == 'names':
                return ('names', sorted(reg.names(req, prov)))
            return ('subs', [_lab(v) for v in reg.subscriptions(req, prov)])
        objs = [self.obj(x) for x in refs]
        if entry == 'queryAdapter':
            return ('r', repr(reg.queryAdapter(objs[0], prov, name, D)))
        if entry == 'adapter_hook':
            return ('r', repr(reg.adapter_hook(prov, objs[0], name, D)))
        if entry == 'queryMultiAdapter':
            return ('r', repr(reg.queryMultiAdapter(objs, prov, name, D)))
        if entry == 'subscribers':
            return ('r', repr(reg.subscribers(objs, prov)))
        if entry == 'call':
            from zope.interface.interface import adapter_hooks
            saved = adapter_hooks[:]
            adapter_hooks[:] = [reg.adapter_hook]
            try:
                return ('r', repr(prov(objs[0], D)))
            finally:
                adapter_hooks[:] = saved
        raise ValueError(entry)

    def norm_key(self, entry, key):
        r, refs, p, name = key
        r = r % len(self.U.regs)
        refs = [tuple(x) for x in refs]
        if entry in ('lookup1', 'queryAdapter', 'adapter_hook', 'call'):
            refs = refs[:1] or [('i', 0)]
        if entry == 'call':
            name = ''
        if entry in ('lookupAll', 'names', 'subscriptions', 'subscribers'):
            name = ''
        return (entry, r, tuple(refs), p, name)

    def all_entries(self, key):
        """the same (refs, provided, name) through every entry point"""
        _, r, refs, p, name = key
        out = []
        for e in ENTRY:
            if e in ('lookup1', 'queryAdapter', 'adapter_hook', 'call') and \
                    len(refs) != 1:
                continue
            out.append(self.norm_key(e, (r, refs, p, name)))
        return out

    # -- operations --------------------------------------------------------
    def pools(self, key):
        pools = []
        for x in key[2]:
            s = self.spec(x) if key[0] in SPEC_ENTRY else \
                self._providedBy(self.real(x))
            pools.append(list(s.__sro__) + [None])
        return pools

    def concretize(self, op, key):
        """turn a generated operation into concrete ones (lists of tuples
        holding real objects) against the current state; [] if it does not
        apply"""
        U = self.U
        M = U.model
        kind = op[0]
        nregs = len(U.regs)
        if kind in ('treg', 'reg'):
            if kind == 'reg':
                _, r, reqrefs, p, name, rn = op
                r = r % nregs
                req = [U.spec(ref) for ref in reqrefs]
                prov = U.prov(p)
            else:
                _, r, pick, ppick, rn, none = op
                pools = self.pools(key)
                req = [pool[(pick + i) % len(pool)]
                       for i, pool in enumerate(pools)]
                ext = [q for q in U.provs if key[3] is None or
                       q.isOrExtends(U.prov(key[3]))]
                prov = ext[ppick % len(ext)]
                name = key[4]
                chain = M.ro(key[1])
                r = chain[r % len(chain)]
            v = self.newfactory(bool(rn))
            return [('register', r, req, prov, name, v)]
        if kind == 'regfor':
            _, r, j = op
            chain = M.ro(key[1])
            r = chain[r % len(chain)]
            pools = self.pools(key)
            if not pools:
                return []
            req = [U.ifaces[j % self.nI]] + [None] * (len(pools) - 1)
            prov = U.prov(key[3]) if key[3] is not None else U.provs[0]
            return [('register', r, req, prov, key[4], self.newfactory())]
        if kind == 'subfor':
            _, r, j = op
            chain = M.ro(key[1])
            r = chain[r % len(chain)]
            pools = self.pools(key)
            if not pools:
                return []
            req = [U.ifaces[j % self.nI]] + [None] * (len(pools) - 1)
            prov = None if key[3] is None else U.prov(key[3])
            return [('subscribe', r, req, prov, self.newfactory())]
        if kind == 'unreg':
            if not self.regs_made:
                return []
            # prefer registrations on the chain of the key
            chain = set(M.ro(key[1]))
            cands = [m for m in self.regs_made if m[1] in chain] or \
                self.regs_made
            # first those whose provided interface has no other
            # registration in that registry (removing them reshapes the
            # table of extendors)
            def lonely(m):
                return sum(1 for x in self.regs_made
                           if x[1] == m[1] and x[3] is m[3]) == 1
            cands = [m for m in cands if lonely(m)] + \
                [m for m in cands if not lonely(m)]
            m = cands[op[1] % len(cands)]
            return [('unregister', m[1], m[2], m[3], m[4])]
        if kind in ('tsub', 'sub'):
            if kind == 'sub':
                _, r, reqrefs, p, rn = op
                r = r % nregs
                req = [U.spec(ref) for ref in reqrefs]
                prov = None if p is None else U.prov(p)
            else:
                _, r, pick, rn = op
                pools = self.pools(key)
                req = [pool[(pick + i) % len(pool)]
                       for i, pool in enumerate(pools)]
                if key[3] is None:
                    prov = None
                else:
                    ext = [q for q in U.provs
                           if q.isOrExtends(U.prov(key[3]))]
                    prov = ext[pick % len(ext)]
                chain = M.ro(key[1])
                r = chain[r % len(chain)]
            return [('subscribe', r, req, prov, self.newfactory(bool(rn)))]
        if kind == 'unsub':
            if not self.subs_made:
                return []
            m = self.subs_made[-1 - (op[1] % len(self.subs_made))]
            return [('unsubscribe', m[1], m[2], m[3], m[4] if op[2]
                     else None)]
        if kind == 'changed':
            chain = M.ro(key[1])
            return [('changed', chain[op[1] % len(chain)])]
        if kind == 'rebuild':
            chain = M.ro(key[1])
            return [('rebuild', chain[op[1] % len(chain)])]
        if kind == 'rbases':
            r = op[1] % nregs
            desc = set(x for x in range(nregs) if r in (M.ro(x) or [x]))
            cands = [x for x in range(nregs) if x not in desc and (
                U.flavours[r] != 'plain' or U.flavours[x] == 'plain')]
            nb = []
            for x in op[2]:
                if cands:
                    c = cands[x % len(cands)]
                    if c not in nb:
                        nb.append(c)
            old = list(M.bases[r])
            M.set_bases(r, nb)
            ok = all(M.ro(x) is not None for x in range(nregs))
            M.set_bases(r, old)
            if not ok:
                self.out.adjusted += 1
                return []
            return [('bases', r, nb)]
        if kind == 'spec':
            _, pick, idxs, mode = op
            if not key[2]:
                return []
            ref = key[2][pick % len(key[2])]
            targets = [U.ifaces[i % self.nI] for i in idxs]
            if ref[0] == 'i':
                return self.concretize(['itoggle', pick, idxs[0]], key)
            return [('decl', ref, targets, mode)]
        if kind == 'itoggle':
            # append interface j to the bases of an ancestor of the key's
            # first interface-like spec (reversible: see 'iuntoggle')
            _, pick, j = op
            anc = None
            for x in key[2]:
                s = self.spec(x) if key[0] in SPEC_ENTRY else \
                    self._providedBy(self.real(x))
                idx = [U.ifaces.index(i) for i in s.__sro__
                       if i in U.ifaces]
                if idx:
                    anc = idx
                    break
            if not anc:
                return []
            a = anc[pick % len(anc)]
            desc = models.descendants(self.ibases, a)
            cands = [x for x in range(self.nI) if x not in desc and
                     x not in self.ibases[a]]
            if not cands:
                return []
            j = cands[j % len(cands)]
            return [('ibases', a, list(self.ibases[a]) + [j])]
        raise ValueError(kind)

    def do(self, m, regs=None, log=True):
        """perform a concrete operation on the real world (and log it)"""
        from zope.interface import alsoProvides
        from zope.interface import classImplements
        from zope.interface import classImplementsOnly
        from zope.interface import directlyProvides
        U = self.U
        kind = m[0]
        if kind == 'decl':
            _, ref, targets, mode = m
            ob = self.real(ref)
            if ref[0] == 'c':
                cls = type(ob)
                if mode % 2:
                    classImplementsOnly(cls, *targets)
                else:
                    classImplements(cls, *targets)
            elif mode == 0:
                directlyProvides(ob, *targets)
            elif mode == 1:
                alsoProvides(ob, *targets)
            elif mode == 2:
                classImplements(type(ob), *targets)
            else:
                classImplementsOnly(type(ob), *targets)
            return
        if kind == 'ibases':
            _, a, nb = m
            self.ibases[a] = list(nb)
            U.ifaces[a].__bases__ = tuple(U.ifaces[j] for j in nb) or \
                (U.Interface,)
            return
        apply_concrete(U.regs if regs is None else regs, m)
        if kind == 'bases':
            U.model.set_bases(m[1], list(m[2]))
        if kind == 'register':
            self.regs_made.append(m)
        if kind == 'subscribe':
            self.subs_made.append(m)
        if log:
            self.log.append(m)

    def setup_contents(self, key):
        for op in self.case['contents']:
            for m in self.concretize(op, key):
                self.do(m)


def apply_concrete(regs, m):
    kind = m[0]
    if kind == 'register':
        regs[m[1]].register(m[2], m[3], m[4], m[5])
    elif kind == 'unregister':
        regs[m[1]].unregister(m[2], m[3], m[4])
    elif kind == 'subscribe':
        regs[m[1]].subscribe(m[2], m[3], m[4])
    elif kind == 'unsubscribe':
        if m[4] is None:
            regs[m[1]].unsubscribe(m[2], m[3])
        else:
            regs[m[1]].unsubscribe(m[2], m[3], m[4])
    elif kind == 'bases':
        regs[m[1]].__bases__ = tuple(regs[b] for b in m[2])
    elif kind == 'rebuild':
        regs[m[1]].rebuild()
    elif kind == 'changed':
        regs[m[1]].changed(regs[m[1]])
    else:
        raise ValueError(kind)


def _lab(v):
    if isinstance(v, Val):
        return 'V%s' % v.label
    return repr(v)


# ---------------------------------------------------------------------------
# ownership audit


def cache_containers(L, impl):
    """(dicts, sequences) the lookup object owns as caches / verification
    tables, reached without going through attributes the C type does not
    expose"""
    dicts, seqs = [], []
    if impl == 'py':
        for n in ('_cache', '_mcache', '_scache'):
            d = getattr(L, n, None)
            if type(d) is dict:
                dicts.append(d)
        for n in ('_verify_ro', '_verify_generations'):
            s = getattr(L, n, None)
            if type(s) in (list, tuple):
                seqs.append(s)
    else:
        skip = set()
        for n in ('_required', '_extendors'):
            skip.add(id(getattr(L, n, None)))
        skip.add(id(L.__dict__))
        for x in gc.get_referents(L):
            if id(x) in skip:
                continue
            if type(x) is dict:
                dicts.append(x)
            elif type(x) is tuple:
                seqs.append(x)
    alld = []
    stack = list(dicts)
    while stack:
        d = stack.pop()
        if any(d is e for e in alld):
            continue
        alld.append(d)
        for v in list(d.values()):
            if type(v) is dict:
                stack.append(v)
    return alld, seqs


class Audit:
    """Keeps the containers alive (so nothing is really freed), and tells
    afterwards which of them nobody but the audit owned after the action
    and were nevertheless written by the interrupted call."""

    def __init__(self, L, impl, ctx=None, occurrence=0):
        self.held, self.seqs = cache_containers(L, impl)
        self.ctx = ctx
        # how many _generation reads of the interrupted call came before
        # this one: the first len(_verify_ro) reads walk the lookup
        # object's own tuple, later ones (inside changed()) a new tuple
        # that the lookup object does not own yet
        self.occurrence = occurrence
        self.foreign = None
        self.snap = None

    def measure(self):
        held = self.held
        n = len(held)
        raw = [sys.getrefcount(held[i]) - 2 for i in range(n)]
        # references between the held containers: inref[i][j] = number of
        # times container j holds container i
        inref = [[sum(1 for v in held[j].values() if v is held[i])
                  for j in range(n)] for i in range(n)]
        # a container is owned if somebody other than the audit and other
        # unowned containers refers to it (least fixpoint from 'nobody')
        owned = [False] * n
        changed = True
        while changed:
            changed = False
            for i in range(n):
                if owned[i]:
                    continue
                f = raw[i] - sum(inref[i][j] for j in range(n)
                                 if not owned[j])
                if f > 0:
                    owned[i] = True
                    changed = True
        self.foreign = [1 if o else 0 for o in owned]
        self.snap = [list(h.items()) for h in held]
        self.seq_foreign = [sys.getrefcount(self.seqs[i]) - 2
                            for i in range(len(self.seqs))]

    def verdict(self, out, point, where):
        if self.foreign is None:
            return
        for i, h in enumerate(self.held):
            if self.foreign[i] > 0:
                continue
            now = list(h.items())
            same = len(now) == len(self.snap[i]) and all(
                a[0] is b[0] and a[1] is b[1]
                for a, b in zip(now, self.snap[i]))
            if not same:
                out.fail('uaf-cache-write',
                         '%s: a cache dictionary that the lookup object had '
                         'released during the callback at %r (no owner left '
                         'but the audit) was written after the callback '
                         'returned: %d -> %d entries' % (
                             where, point, len(self.snap[i]), len(now)))
                return
        if point == 'generation' and self.ctx is not None:
            for i, s in enumerate(self.seqs):
                pos = [k for k, x in enumerate(s) if x is self.ctx]
                if pos and pos[0] == self.occurrence and \
                        pos[0] < len(s) - 1 and self.seq_foreign[i] <= 0:
                    out.fail('uaf-verify-ro-read',
                             '%s: the tuple of base registries being walked '
                             'for their generations was released during the '
                             '_generation callback of element %d of %d (no '
                             'owner left but the audit); the walk reads the '
                             'following elements from it' % (
                                 where, pos[0], len(s)))
                    return


# ---------------------------------------------------------------------------
# inject


def run_inject(case, cfg, out):
    W = World(case, out)
    impl = cfg.get('impl', 'c')
    audit_on = cfg.get('audit', True)
    entry, point = case['entry'], case['point']
    if point == 'provides':
        W.wrap_kind = 'PV'
    key = W.norm_key(entry, case['key'])
    W.setup_contents(key)
    regs = W.U.regs
    out.tag('point_' + point, 'entry_' + entry)

    for wentry, same in case['warm']:
        if point in ('uncached_before', 'uncached_after') and same and \
                wentry in _same_cache(entry):
            continue        # keep the cache cold for the interrupted call
        wk = W.norm_key(wentry, case['key'])
        if wk[0] in ('lookup1', 'queryAdapter', 'adapter_hook') and \
                len(wk[2]) != 1:
            continue
        W.answer(regs, wk)
        out.tag('warm')

    before = W.answer(W.build(), key)
    state = {'audit': None, 'nested': [], 'raised': False}
    then_raise = case['then_raise']

    def action(ctx):
        L = regs[key[1]]._v_lookup
        if audit_on:
            state['audit'] = Audit(L, impl, ctx, case.get('skip', 0))
        for op in case['action']:
            if op[0] == 'nested':
                nk = W.norm_key(op[1], case['key'] if op[2] else op[3])
                if nk[0] in ('lookup1', 'queryAdapter', 'adapter_hook') \
                        and len(nk[2]) != 1:
                    continue
                if nk[0] == 'call':
                    continue
                ans = W.answer(regs, nk)
                # judged against the state at this very moment
                state['nested'].append((nk, ans, W.answer(W.build(), nk)))
            else:
                for m in W.concretize(op, key):
                    W.do(m)
                    out.tag('act_' + m[0])
                    if m[0] in ('ibases', 'decl'):
                        state['spec_level'] = True
        if state['audit'] is not None:
            state['audit'].measure()
        if then_raise:
            state['raised'] = True
            raise Boom()

    if point in ('generation', 'generation_changed') and case.get('bump'):
        # a base registry changed since the last lookup: the interrupted
        # call also runs the verifying changed()
        chain = W.U.model.ro(key[1])
        if len(chain) > 1:
            m = ('changed', chain[1 + case['skip'] % (len(chain) - 1)])
            W.do(m)
    H.arm(point, action, case.get('skip', 0))
    got = None
    try:
        got = W.answer(regs, key, lazy=(point == 'lazy_required'))
    except Boom:
        got = ('boom',)
    finally:
        H.fn = None
    fired = H.fired
    where = '%s interrupted at %s on registry %d (%s)' % (
        entry, point, key[1], W.U.flavours[key[1]])
    if not fired:
        out.tag('not_fired')
    else:
        out.tag('fired')
    if got == ('boom',) and not state['raised']:
        out.fail('invented-exception', where + ': Boom escaped but the '
                 'callback did not raise')
        return
    after_twin = W.build()
    after = W.answer(after_twin, key)
    if fired and before != after:
        out.nontrivial = True
        out.tag('answer_changes')
    out.checks += 1
    if state.get('spec_level'):
        # The statement demands a before-or-after answer of a lookup
        # interrupted by a mutation of the REGISTRY.  A change of a
        # required specification reaches the resolution orders of several
        # specifications, which a lookup reads one after the other (once
        # per registry of the chain): the interrupted call may mix them.
        # What is demanded is that nothing of it stays in the caches.
        out.tag('spec_level_answer_not_judged')
    elif got != ('boom',) and got != before and got != after:
        out.fail('torn-answer-' + entry,
                 '%s: answered %r; a registry that never served a lookup '
                 'answers %r before and %r after the action %r' % (
                     where, got, before, after, case['action']))
        return
    if state['audit'] is not None:
        state['audit'].verdict(out, point, where)
        if out.fails:
            return
    # nested lookups inside the callback: each must be right for the state
    # at that moment
    for nk, ans, exp in state['nested']:
        out.checks += 1
        if ans != exp:
            out.fail('nested-wrong-' + nk[0],
                     '%s: nested %s answered %r, expected %r' % (
                         where, nk[0], ans, exp))
            return

    def compare(stage, twin):
        keys = W.all_entries(key)
        for wentry, same in case['warm']:
            keys.append(W.norm_key(wentry, case['key']))
        for nk, _, _ in state['nested']:
            keys.append(nk)
        for k in keys:
            if k[0] in ('lookup1', 'queryAdapter', 'adapter_hook',
                        'call') and len(k[2]) != 1:
                continue
            out.checks += 1
            a = W.answer(regs, k)
            b = W.answer(twin, k)
            if a != b:
                out.fail('stale-after-' + k[0],
                         '%s; %s: %s for %r answers %r, a registry that '
                         'never served a lookup answers %r' % (
                             where, stage, k[0], k[2:], a, b))
                return False
        return True

    if not compare('right after the interrupted call', after_twin):
        return
    for n, op in enumerate(case['followup']):
        ms = W.concretize(op, key)
        for m in ms:
            W.do(m)
        if ms and not compare('after follow-up %d %r' % (n, op[0]),
                              W.build()):
            return


def _same_cache(entry):
    if entry in ('lookupAll', 'names'):
        return ('lookupAll', 'names')
    if entry in ('subscriptions', 'subscribers'):
        return ('subscriptions', 'subscribers')
    return ('lookup', 'lookup1', 'queryAdapter', 'adapter_hook',
            'queryMultiAdapter', 'call')


# ---------------------------------------------------------------------------
# preempt


_TRACED = {}
LAST_SITE = [None]


TRACED_CODES = set()


def _traced_file(fn):
    r = _TRACED.get(fn)
    if r is None:
        r = ('/zope/interface/' in fn and '/tests/' not in fn and
             fn.endswith(('adapter.py', 'interface.py', 'ro.py',
                          'declarations.py', 'registry.py'))) or \
            fn.endswith(('/weakref.py', '/_weakrefset.py'))
        # (the tables of dependents and sub-registries are weak
        # dictionaries implemented in Python: threads switch inside them)
        _TRACED[fn] = r
    return r


_PRIMED = [False]


def _prime():
    # CPython 3.12: per-opcode events only arrive from the second
    # sys.settrace() session in which f_trace_opcodes was set
    def dummy():
        return 1

    def local(frame, event, arg):
        return local

    def glob(frame, event, arg):
        if frame.f_code is dummy.__code__:
            frame.f_trace_opcodes = True
            return local
        return None
    sys.settrace(glob)
    try:
        dummy()
    finally:
        sys.settrace(None)
    _PRIMED[0] = True


def choose_ks(N, sites, kmax, koff):
    """which opcode events to interrupt at when there are more than kmax:
    stratified by code location (file, line) - the first occurrence of
    every location and one more chosen by koff - then filled up evenly over
    time.  Every location that the operation executes is interrupted at
    least once even when the operation runs for thousands of events."""
    if N <= kmax:
        return list(range(1, N + 1))
    by_site = {}
    for i, site in enumerate(sites):
        by_site.setdefault(site, []).append(i + 1)
    picked = []
    for site in sorted(by_site, key=lambda x: by_site[x][0]):
        occ = by_site[site]
        picked.append(occ[0])
        if len(occ) > 1:
            picked.append(occ[1 + koff % (len(occ) - 1)])
    picked = sorted(set(picked))
    if len(picked) > kmax:
        step = len(picked) / float(kmax)
        picked = sorted(set(picked[int(i * step)] for i in range(kmax)))
    else:
        need = kmax - len(picked)
        step = N / float(max(1, need))
        off = koff % max(1, int(step))
        picked = sorted(set(picked) | set(
            min(N, 1 + off + int(i * step)) for i in range(need)))
    return picked


def run_traced(fn, k, inject, sites=None):
    """run fn(); at the k-th opcode event of a traced frame run inject()
    inline.  Returns (result, exception, number of events, injected?)"""
    if not _PRIMED[0]:
        _prime()
    count = [0]
    done = [False]

    def local(frame, event, arg):
        if event == 'opcode':
            count[0] += 1
            if sites is not None:
                sites.append((frame.f_code.co_filename, frame.f_lineno))
            if count[0] == k and not done[0]:
                done[0] = True
                LAST_SITE[0] = '%s:%s in %s' % (
                    os.path.basename(frame.f_code.co_filename),
                    frame.f_lineno, frame.f_code.co_name)
                inject()
        return local

    def glob(frame, event, arg):
        if _traced_file(frame.f_code.co_filename) or \
                frame.f_code in TRACED_CODES:
            frame.f_trace_opcodes = True
            return local
        return None

    res = exc = None
    sys.settrace(glob)
    try:
        res = fn()
    except Exception as e:  # noqa
        exc = e
    finally:
        sys.settrace(None)
    return res, exc, count[0], done[0]


def run_preempt(case, cfg, out):
    W = World(case, out)
    entry = case['entry']
    key = W.norm_key(entry, case['key'])
    W.setup_contents(key)
    direction = case['dir']
    out.tag('dir_' + direction, 'entry_' + entry)
    log0 = list(W.log)
    regs_made0 = list(W.regs_made)
    subs_made0 = list(W.subs_made)

    # the mutator, made concrete once
    ms = W.concretize(case['mut'], key) if direction != 'LL' else []
    if direction != 'LL' and not ms:
        out.tag('mutator_not_applicable')
        return
    spec_level = bool(ms) and ms[0][0] in ('ibases',)
    if direction == 'LL':
        k2 = W.norm_key(case['entry2'],
                        case['key'] if case['same2'] else case['key2'])
        if k2[0] in ('lookup1', 'queryAdapter', 'adapter_hook') and \
                len(k2[2]) != 1:
            k2 = key
    old_ibases = None
    if spec_level:
        old_ibases = ('ibases', ms[0][1], list(W.ibases[ms[0][1]]))

    def mutate(regs):
        for m in ms:
            if m[0] == 'ibases':
                W.do(m)
            else:
                apply_concrete(regs, m)

    def unmutate():
        if spec_level:
            W.do(old_ibases)

    # the follow-up toggle (reversible interface re-base)
    if spec_level:
        # chosen against the hierarchy as the mutation leaves it, so that
        # both together stay acyclic
        W.do(ms[0])
    tg = W.concretize(['itoggle'] + list(case['toggle']), key)
    unmutate()
    if tg and spec_level and tg[0][1] == ms[0][1]:
        tg = []
    tg_old = ('ibases', tg[0][1], list(W.ibases[tg[0][1]])) if tg else None

    keys = W.all_entries(key)
    if direction == 'LL' and k2 not in keys:
        keys.append(k2)

    def answers(regs):
        return [W.answer(regs, k) for k in keys]

    def fresh():
        regs = W.build(log0)
        for wentry, same in case['warm']:
            wk = W.norm_key(wentry, case['key'])
            if wk[0] in ('lookup1', 'queryAdapter', 'adapter_hook') and \
                    len(wk[2]) != 1:
                continue
            W.answer(regs, wk)
        return regs

    # expectations, computed once on registries that are never interrupted
    t = W.build(log0)
    before = answers(t)
    t = W.build(log0)
    mutate(t)
    after = answers(t)
    if tg:
        W.do(tg[0])
        t2 = W.build(log0)
        # replay of the registry-level part only; spec-level mutation is
        # still in force on the shared specifications
        for m in ms:
            if m[0] != 'ibases':
                apply_concrete(t2, m)
        after_toggle = answers(t2)
        W.do(tg_old)
    unmutate()
    kidx = keys.index(key)
    if before[kidx] != after[kidx]:
        out.nontrivial = True
        out.tag('answer_changes')
    elif direction == 'LL':
        out.nontrivial = bool(case['warm']) or True

    if direction == 'LM':
        def X(regs):
            return W.answer(regs, key)

        def Y(regs):
            mutate(regs)
    elif direction == 'ML':
        def X(regs):
            mutate(regs)

        def Y(regs):
            return W.answer(regs, key)
    else:
        def X(regs):
            return W.answer(regs, key)

        def Y(regs):
            return W.answer(regs, k2)

    # dry run: number of opcode events of X
    regs = fresh()
    sites = []
    _, exc, N, _ = run_traced(lambda: X(regs), -1, lambda: None, sites)
    unmutate() if direction == 'ML' else None
    if exc is not None:
        raise exc
    ks = choose_ks(N, sites, int(cfg.get('kmax', 64)), case['koff'])
    out.tag('events_%s' % ('le100' if N <= 100 else 'le300' if N <= 300
                           else 'gt300'))
    for k in ks:
        regs = fresh()
        ybox = {}

        def inject():
            try:
                ybox['res'] = Y(regs)
            except Exception as e:  # noqa
                ybox['exc'] = e

        xres, xexc, n, injected = run_traced(lambda: X(regs), k, inject)
        out.checks += 1
        where = 'X=%s Y=%s at opcode event %d of %d (%s, registry %d %s)' % (
            entry if direction != 'ML' else ms[0][0],
            (ms[0][0] if direction == 'LM' else
             entry if direction == 'ML' else k2[0]),
            k, N, direction, key[1], W.U.flavours[key[1]])
        where += ' [%s]' % LAST_SITE[0]
        try:
            if xexc is not None:
                out.fail('preempt-exception-X:%s' % type(xexc).__name__,
                         '%s: X raised %r' % (where, xexc))
                return
            if 'exc' in ybox:
                out.fail('preempt-exception-Y:%s' %
                         type(ybox['exc']).__name__,
                         '%s: Y raised %r' % (where, ybox['exc']))
                return
            if not injected:
                continue
            lookup_res = xres if direction != 'ML' else ybox.get('res')
            if spec_level:
                out.tag('spec_level_answer_not_judged')   # see run_inject
            elif lookup_res != before[kidx] and lookup_res != after[kidx]:
                out.fail('preempt-torn-' + entry,
                         '%s: the lookup answered %r; before %r, after %r' % (
                             where, lookup_res, before[kidx], after[kidx]))
                return
            if direction == 'LL':
                i2 = keys.index(k2)
                if ybox.get('res') != before[i2]:
                    out.fail('preempt-ll-' + k2[0],
                             '%s: the interleaved lookup answered %r, '
                             'expected %r' % (where, ybox.get('res'),
                                              before[i2]))
                    return
            def plain_check():
                now = answers(regs)
                if now != after:
                    bad = [i for i in range(len(keys))
                           if now[i] != after[i]][0]
                    out.fail('preempt-stale-' + keys[bad][0],
                             '%s: afterwards %s answers %r, a registry that '
                             'was never interrupted answers %r' % (
                                 where, keys[bad][0], now[bad], after[bad]))
                    return False
                return True

            def toggle_check():
                if not tg:
                    return True
                W.do(tg[0])
                try:
                    # the interrupted key first: other lookups subscribe
                    # to the same specifications and would hide a
                    # subscription that was lost
                    first = W.answer(regs, keys[kidx])
                    now = answers(regs)
                    now[kidx] = first
                finally:
                    W.do(tg_old)
                if now != after_toggle:
                    bad = [i for i in range(len(keys))
                           if now[i] != after_toggle[i]][0]
                    out.fail('preempt-stale-after-rebase-' + keys[bad][0],
                             '%s: after a later re-base of a required '
                             'interface %s answers %r, a registry that was '
                             'never interrupted answers %r' % (
                                 where, keys[bad][0], now[bad],
                                 after_toggle[bad]))
                    return False
                return True

            order = [plain_check, toggle_check]
            if k % 2:
                order.reverse()
            if not (order[0]() and order[1]()):
                return
        finally:
            unmutate()
    W.regs_made[:] = regs_made0
    W.subs_made[:] = subs_made0


# ---------------------------------------------------------------------------
# preempt2: X interrupted at opcode event k by TWO complete operations of
# other threads (a lookup and a mutation, in either order), optionally after
# a mutation that makes X itself run changed() (verifying flavour)


def run_preempt2(case, cfg, out):
    W = World(case, out)
    entry = case['entry']
    key = W.norm_key(entry, case['key'])
    W.setup_contents(key)
    log0 = list(W.log)

    def concrete(op):
        ms = [m for m in W.concretize(op, key) if m[0] != 'ibases'
              and m[0] != 'decl']
        for m in ms:
            if m[0] == 'bases':
                W.U.model.set_bases(m[1], list(m[2]))
            elif m[0] == 'register':
                W.regs_made.append(m)
            elif m[0] == 'subscribe':
                W.subs_made.append(m)
        return ms

    pre = []
    for op in case['pre']:
        pre += concrete(op)
    xm = concrete(case['x'][1]) if case['x'][0] == 'M' else None
    if case['x'][0] == 'M' and not xm:
        out.tag('mutator_not_applicable')
        return
    ys = []
    for y in case['ys']:
        if y[0] == 'L':
            k2 = W.norm_key(y[1], y[3] if y[2] else case['key'])
            if k2[0] in ('lookup1', 'queryAdapter', 'adapter_hook') and \
                    len(k2[2]) != 1:
                k2 = key
            ys.append(('L', k2))
        else:
            ms = concrete(y[1])
            if ms:
                ys.append(('M', ms))
    if not ys:
        out.tag('mutator_not_applicable')
        return
    ym = [m for y in ys if y[0] == 'M' for m in y[1]]
    if xm and ym and not (
            xm[0][0] == 'bases' and all(
                m[0] in ('register', 'subscribe', 'unregister',
                         'unsubscribe') and m[1] != xm[0][1] for m in ym)):
        # Two mutators racing each other are outside the statement (it
        # quantifies over lookups against a mutator).  The one combination
        # kept is a re-base of one registry while something is registered
        # in ANOTHER registry: they touch disjoint data, and what matters is
        # whether the lookup in between leaves a stale entry.
        ys = [y for y in ys if y[0] == 'L']
        ym = []
        out.tag('second_mutator_dropped')
        if not ys:
            return
    out.tag('x_' + case['x'][0], 'ys_' + ''.join(y[0] for y in ys),
            'pre' if pre else 'nopre')

    keys = W.all_entries(key)
    for y in ys:
        if y[0] == 'L' and y[1] not in keys:
            keys.append(y[1])
    kidx = keys.index(key)

    def answers(regs):
        return [W.answer(regs, k) for k in keys]

    def fresh():
        regs = W.build(log0)
        # warm: always through the interrupted entry point, so that the
        # verifying flavour has recorded generations that `pre` outdates
        for wentry in [entry] + list(case['warm']):
            wk = W.norm_key(wentry, case['key'])
            if wk[0] in ('lookup1', 'queryAdapter', 'adapter_hook') and \
                    len(wk[2]) != 1:
                continue
            W.answer(regs, wk)
        for m in pre:
            apply_concrete(regs, m)
        return regs

    # answers in the four states (interleaved mutation applied or not) x
    # (interrupted mutation applied or not), on never-interrupted twins
    xm_ = xm or []
    S = {}
    for ay in (False, True):
        for ax in (False, True):
            S[(ax, ay)] = answers(W.build(
                log0 + pre + (ym if ay else []) + (xm_ if ax else [])))
    before = S[(False, False)]
    after = S[(True, True)]
    # if both a mutator is interrupted and another one runs meanwhile,
    # the final state is only well defined when they commute
    commute = True
    if xm_ and ym:
        commute = answers(W.build(log0 + pre + xm_ + ym)) == after
        if not commute:
            out.tag('mutations_do_not_commute')
    tg = W.concretize(['itoggle'] + list(case['toggle']), key)
    after_toggle = None
    if tg:
        tg_old = ('ibases', tg[0][1], list(W.ibases[tg[0][1]]))
        W.do(tg[0])
        after_toggle = answers(W.build(log0 + pre + ym + xm_))
        W.do(tg_old)
    if before != after:
        out.nontrivial = True
        out.tag('answer_changes')

    if xm is None:
        def X(regs):
            return W.answer(regs, key)
    else:
        def X(regs):
            for m in xm:
                apply_concrete(regs, m)

    regs = fresh()
    sites = []
    _, exc, N, _ = run_traced(lambda: X(regs), -1, lambda: None, sites)
    if exc is not None:
        raise exc
    ks = choose_ks(N, sites, int(cfg.get('kmax', 64)), case['koff'])
    for k in ks:
        regs = fresh()
        ybox = {'res': [], 'mutated': False}

        def inject():
            try:
                for y in ys:
                    if y[0] == 'L':
                        ybox['res'].append(
                            (y[1], ybox['mutated'], W.answer(regs, y[1])))
                    else:
                        for m in y[1]:
                            apply_concrete(regs, m)
                        ybox['mutated'] = True
            except Exception as e:  # noqa
                ybox['exc'] = e

        xres, xexc, n, injected = run_traced(lambda: X(regs), k, inject)
        out.checks += 1
        where = 'X=%s interrupted at opcode event %d of %d [%s] by %s ' \
            '(after %s; registry %d %s)' % (
                entry if xm is None else xm[0][0], k, N, LAST_SITE[0],
                ' then '.join(y[1][0] if y[0] == 'L' else y[1][0][0]
                              for y in ys),
                pre[0][0] if pre else 'nothing', key[1],
                W.U.flavours[key[1]])
        if xexc is not None:
            out.fail('preempt2-exception-X:%s' % type(xexc).__name__,
                     '%s: X raised %r' % (where, xexc))
            return
        if 'exc' in ybox:
            out.fail('preempt2-exception-Y:%s' % type(ybox['exc']).__name__,
                     '%s: an interleaved operation raised %r' % (
                         where, ybox['exc']))
            return
        if not injected:
            continue
        if xm is None and xres != before[kidx] and xres != after[kidx]:
            out.fail('preempt2-torn-' + entry,
                     '%s: the interrupted lookup answered %r; before %r, '
                     'after %r' % (where, xres, before[kidx], after[kidx]))
            return
        for k2, mutated, a in ybox['res']:
            i = keys.index(k2)
            if xm is None:
                # nothing is in progress while this lookup runs (the
                # interrupted lookup does not mutate): exact
                ok = [S[(False, mutated)][i]]
            else:
                # the interrupted mutator is in progress
                ok = [S[(False, mutated)][i], S[(True, mutated)][i]]
            if a not in ok:
                out.fail('preempt2-other-lookup-' + k2[0],
                         '%s: the interleaved %s answered %r, correct: %r' % (
                             where, k2[0], a, ok))
                return

        def plain_check():
            now = answers(regs)
            if now != after:
                bad = [i for i in range(len(keys)) if now[i] != after[i]][0]
                out.fail('preempt2-stale-' + keys[bad][0],
                         '%s: afterwards %s answers %r, a registry that was '
                         'never interrupted answers %r\n%s' % (
                             where, keys[bad][0], now[bad], after[bad],
                             _diag(regs, key[1], 0, 0, 0)))
                return False
            return True

        def toggle_check():
            if not tg:
                return True
            W.do(tg[0])
            try:
                first = W.answer(regs, keys[kidx])
                now = answers(regs)
                now[kidx] = first
            finally:
                W.do(tg_old)
            if now != after_toggle:
                bad = [i for i in range(len(keys))
                       if now[i] != after_toggle[i]][0]
                out.fail('preempt2-stale-after-rebase-' + keys[bad][0],
                         '%s: after a later re-base of a required interface '
                         '%s answers %r, expected %r' % (
                             where, keys[bad][0], now[bad],
                             after_toggle[bad]))
                return False
            return True

        order = [plain_check, toggle_check]
        if k % 2:
            order.reverse()
        if commute and not (order[0]() and order[1]()):
            return


# ---------------------------------------------------------------------------
# sched: the harness owns the schedule of two or three threads


class SchedulerStuck(Exception):
    pass


class Scheduler:
    """Lets exactly one of the threads run; a thread gives way at the opcode
    boundaries of zope.interface frames according to a list of segments
    [(thread, number of opcode events)].  When the list is used up the
    unfinished threads run to completion one after the other."""

    def __init__(self, nthreads, segments):
        self.cond = threading.Condition()
        self.segments = [tuple(x) for x in segments]
        self.done = [False] * nthreads
        self.current = None
        self.left = 0
        self.switches = 0
        self.sites = []
        self._advance()

    def _advance(self):
        while self.segments:
            tid, n = self.segments.pop(0)
            if tid < len(self.done) and not self.done[tid]:
                if tid != self.current:
                    self.switches += 1
                self.current, self.left = tid, n
                return
        for tid, d in enumerate(self.done):
            if not d:
                if tid != self.current:
                    self.switches += 1
                self.current, self.left = tid, 1 << 60
                return
        self.current = None

    def _wait(self, tid):
        t0 = time.time()
        while self.current != tid:
            self.cond.wait(1.0)
            if time.time() - t0 > 60:
                raise SchedulerStuck('thread %d never got its turn' % tid)

    def gate(self, tid):
        with self.cond:
            self._wait(tid)

    def tick(self, tid, frame):
        with self.cond:
            self.left -= 1
            if self.left <= 0:
                if len(self.sites) < 40:
                    self.sites.append('%d@%s:%s' % (
                        tid, os.path.basename(frame.f_code.co_filename),
                        frame.f_lineno))
                self._advance()
                self.cond.notify_all()
                self._wait(tid)

    def finish(self, tid):
        with self.cond:
            self.done[tid] = True
            if self.current == tid:
                self._advance()
            self.cond.notify_all()


def run_scheduled(bodies, segments):
    """bodies: callables, one per thread.  Returns (exceptions, scheduler)"""
    if not _PRIMED[0]:
        _prime()
    sch = Scheduler(len(bodies), segments)
    excs = [None] * len(bodies)

    def runner(tid):
        def local(frame, event, arg):
            if event == 'opcode':
                sch.tick(tid, frame)
            return local

        def glob(frame, event, arg):
            if _traced_file(frame.f_code.co_filename) or \
                    frame.f_code in TRACED_CODES:
                frame.f_trace_opcodes = True
                return local
            return None
        try:
            sch.gate(tid)
            sys.settrace(glob)
            try:
                bodies[tid]()
            finally:
                sys.settrace(None)
        except BaseException as e:  # noqa
            excs[tid] = e
        finally:
            sch.finish(tid)

    ths = [threading.Thread(target=runner, args=(i,))
           for i in range(len(bodies))]
    for t in ths:
        t.start()
    for t in ths:
        t.join()
    return excs, sch


def run_sched(case, cfg, out):
    import traceback
    W = World(case, out)
    key = W.norm_key('lookup', case['key'])
    W.setup_contents(key)
    log0 = list(W.log)
    regs_made0 = list(W.regs_made)
    subs_made0 = list(W.subs_made)

    # the mutator's sequence, made concrete once against the model state
    # as it evolves; spec-level steps are undone afterwards
    ms = []
    undo = []
    for op in case['muts']:
        for m in W.concretize(op, key):
            if m[0] == 'ibases':
                undo.append(('ibases', m[1], list(W.ibases[m[1]])))
                W.do(m)
            elif m[0] == 'bases':
                undo.append(('mbases', m[1], list(W.U.model.bases[m[1]])))
                W.U.model.set_bases(m[1], list(m[2]))
            elif m[0] == 'register':
                W.regs_made.append(m)
            elif m[0] == 'subscribe':
                W.subs_made.append(m)
            ms.append(m)

    def unmutate():
        for u in reversed(undo):
            if u[0] == 'ibases':
                if W.ibases[u[1]] != u[2]:
                    W.do(u)
            else:
                W.U.model.set_bases(u[1], list(u[2]))
    unmutate()
    W.regs_made[:] = regs_made0
    W.subs_made[:] = subs_made0
    if not ms:
        out.tag('mutator_not_applicable')
        return

    def apply(regs, m):
        if m[0] == 'ibases':
            W.do(m)
        else:
            apply_concrete(regs, m)

    # the keys the lookup threads use, plus every entry point of the main
    # key for the final comparison
    lookers = []
    for ops in case['lookers']:
        seq = []
        for entry, other, k2 in ops:
            k = W.norm_key(entry, k2 if other else case['key'])
            if k[0] in ('lookup1', 'queryAdapter', 'adapter_hook') and \
                    len(k[2]) != 1:
                k = W.norm_key('lookup', k2 if other else case['key'])
            seq.append(k)
        lookers.append(seq)
    keys = W.all_entries(key)
    for seq in lookers:
        for k in seq:
            if k not in keys:
                keys.append(k)

    def answers(regs):
        return [W.answer(regs, k) for k in keys]

    # reference: answers after j mutations, on registries that no other
    # thread ever touched
    t = W.build(log0)
    A = [answers(t)]
    for m in ms:
        apply(t, m)
        A.append(answers(t))
    tg = W.concretize(['itoggle'] + list(case['toggle']), key)
    if tg and any(m[0] == 'ibases' and m[1] == tg[0][1] for m in ms):
        tg = []
    after_toggle = None
    if tg:
        tg_old = ('ibases', tg[0][1], list(W.ibases[tg[0][1]]))
        W.do(tg[0])
        after_toggle = answers(t)
        W.do(tg_old)
    unmutate()
    if any(a != A[0] for a in A):
        out.nontrivial = True
        out.tag('answers_change')

    for sn, segments in enumerate(case['schedules']):
        regs = W.build(log0)
        for wentry, same in case['warm']:
            wk = W.norm_key(wentry, case['key'])
            if wk[0] in ('lookup1', 'queryAdapter', 'adapter_hook') and \
                    len(wk[2]) != 1:
                continue
            W.answer(regs, wk)
        started = [0]
        finished = [0]
        records = []

        def mk_looker(seq):
            def body():
                for k in seq:
                    f0 = finished[0]
                    a = W.answer(regs, k)
                    records.append((k, a, f0, started[0]))
            return body

        def mutator():
            for m in ms:
                started[0] += 1
                apply(regs, m)
                finished[0] += 1

        bodies = [mutator] + [mk_looker(seq) for seq in lookers]
        excs, sch = run_scheduled(bodies, segments)
        out.checks += 1
        out.tag('switches_%s' % ('0' if sch.switches <= 1 else
                                 'le3' if sch.switches <= 3 else
                                 'le6' if sch.switches <= 6 else 'gt6'))
        where = 'schedule %d %r (switch sites %s) on registry %d (%s)' % (
            sn, segments, ' '.join(sch.sites[:12]), key[1],
            W.U.flavours[key[1]])
        try:
            for tid, e in enumerate(excs):
                if e is None:
                    continue
                if isinstance(e, SchedulerStuck):
                    raise e
                out.fail('sched-exception-%s:%s' % (
                    'mutator' if tid == 0 else 'lookup',
                    type(e).__name__),
                    '%s: thread %d raised %r\n%s' % (
                        where, tid, e, ''.join(traceback.format_exception(
                            type(e), e, e.__traceback__))[-1200:]))
                return
            for k, a, f0, s1 in records:
                i = keys.index(k)
                out.checks += 1
                if s1 - f0 == 0:
                    ok = [A[f0][i]]
                elif s1 - f0 == 1 and ms[f0][0] == 'ibases':
                    out.tag('spec_level_answer_not_judged')
                    continue
                elif s1 - f0 == 1:
                    ok = [A[f0][i], A[f0 + 1][i]]
                else:
                    # more than one mutation during one lookup: the
                    # statement speaks about one; a walk that saw the
                    # first mutation's effect but not the second's may mix
                    # them, so nothing is demanded of the answer itself
                    out.tag('lookup_spans_several')
                    continue
                if a not in ok:
                    out.fail('sched-wrong-' + k[0],
                             '%s: %s for %r answered %r; %d mutation(s) '
                             'overlapped the call, correct answers: %r' % (
                                 where, k[0], k[2:], a, s1 - f0, ok))
                    return
            def plain_check():
                now = answers(regs)
                if now != A[-1]:
                    bad = [i for i in range(len(keys))
                           if now[i] != A[-1][i]][0]
                    out.fail('sched-stale-' + keys[bad][0],
                             '%s: afterwards %s for %r answers %r, a '
                             'registry no other thread touched answers %r\n'
                             '%s' % (where, keys[bad][0], keys[bad][2:],
                                     now[bad], A[-1][bad],
                                     _diag(regs, key[1], 0, started[0],
                                           finished[0])))
                    return False
                return True

            def toggle_check():
                if not tg:
                    return True
                W.do(tg[0])
                try:
                    # the keys the threads used first (see preempt)
                    first = {}
                    for kk, _a, _f, _s in records:
                        i = keys.index(kk)
                        if i not in first:
                            first[i] = W.answer(regs, kk)
                    now = answers(regs)
                    for i, a in first.items():
                        now[i] = a
                finally:
                    W.do(tg_old)
                if now != after_toggle:
                    bad = [i for i in range(len(keys))
                           if now[i] != after_toggle[i]][0]
                    out.fail('sched-stale-after-rebase-' + keys[bad][0],
                             '%s: after a later re-base of a required '
                             'interface %s answers %r, expected %r' % (
                                 where, keys[bad][0], now[bad],
                                 after_toggle[bad]))
                    return False
                return True

            order = [plain_check, toggle_check]
            if sn % 2:
                order.reverse()
            if not (order[0]() and order[1]()):
                return
        finally:
            unmutate()
    W.regs_made[:] = regs_made0
    W.subs_made[:] = subs_made0


# ---------------------------------------------------------------------------
# leak


def run_leak(case, cfg, out):
    W = World(case, out)
    entry, mode = case['entry'], case['mode']
    key = W.norm_key(entry, case['key'])
    W.setup_contents(key)
    regs = W.U.regs
    reg = regs[key[1]]
    reps = int(cfg.get('reps', 40))
    out.tag('mode_' + mode, 'entry_' + entry)
    point = {'boom_lazy': 'lazy_required', 'boom_uncached': 'uncached_after',
             'boom_uncached_warm': 'uncached_before',
             'boom_factory': 'factory', 'boom_providedBy': 'providedBy',
             'boom_generation': 'generation',
             'mutate_uncached': 'uncached_before',
             'mutate_generation': 'generation',
             'mutate_lazy': 'lazy_required'}.get(mode)
    if point and entry not in POINTS[point]:
        point = None
        mode = 'cold'
    # 'warm': the caches are never dropped, so the same inner cache
    # dictionaries serve every repetition (the key itself always misses
    # because the callback raises before anything is stored)
    cold = mode not in ('hit', 'boom_uncached_warm')
    ms = W.concretize(['treg', 0, 3, 1, False, False], key)
    toggle = [0]

    def boom(ctx):
        raise Boom()

    def mutate(ctx):
        # register / unregister alternately: every repetition really
        # changes the registry from inside the callback
        m = ms[0]
        if toggle[0] % 2 == 0:
            apply_concrete(regs, m)
        else:
            apply_concrete(regs, ('unregister',) + m[1:5])
        toggle[0] += 1

    k = key
    if mode == 'badname':
        k = key[:4] + (None,)
        if entry in ('lookupAll', 'names', 'subscriptions', 'subscribers',
                     'call'):
            k = key
            mode = 'cold'

    chain = W.U.model.ro(key[1])
    skip = case.get('skip', 0)

    def once():
        if cold:
            reg.changed(reg)
        if point == 'generation' and len(chain) > 1:
            regs[chain[1]].changed(regs[chain[1]])
        if point:
            H.arm(point, boom if mode.startswith('boom') else mutate,
                  skip if point == 'generation' else 0)
        try:
            W.answer(regs, k, lazy=(point == 'lazy_required'))
        except (Boom, ValueError):
            out.tag('raised')
        finally:
            H.fn = None

    tracked = [reg, reg._v_lookup, W.D]
    tracked += [W.spec(x) for x in key[2]]
    tracked += [W.obj(x) for x in key[2]]
    tracked += list(W.U.provs) + list(W.U.ifaces)
    tracked += [m[5] for m in W.regs_made] + [m[4] for m in W.subs_made]
    tracked += [m[5] for m in ms]
    tracked += list(regs)
    for _ in range(6):
        once()
    if toggle[0] % 2:
        mutate(None)
    if not cold:
        # the lookup object's own cache containers as they are now
        ds, _seqs = cache_containers(reg._v_lookup, cfg.get('impl', 'c'))
        tracked += ds
    gc.collect()
    base = [sys.getrefcount(t) for t in tracked]
    nobj = len(gc.get_objects())
    nblk = sys.getallocatedblocks()
    for _ in range(reps - reps % 2):
        once()
    if toggle[0] % 2:
        mutate(None)
    gc.collect()
    nblk2 = sys.getallocatedblocks()
    after = [sys.getrefcount(t) for t in tracked]
    nobj2 = len(gc.get_objects())
    out.checks += len(tracked) + 1
    out.nontrivial = cold or point is not None
    thr = max(4, reps // 2)
    for t, a, b in zip(tracked, base, after):
        if b - a >= thr:
            out.fail('leak-refs-' + entry,
                     '%s (%s) repeated %d times: the reference count of %r '
                     'grew from %d to %d' % (entry, mode, reps, t, a, b))
            return
    if nblk2 - nblk >= thr:
        # objects the collector does not track (an empty dictionary, a
        # tuple of specifications) still occupy allocator blocks
        out.fail('leak-blocks-' + entry,
                 '%s (%s) repeated %d times: the number of allocated memory '
                 'blocks grew from %d to %d' % (entry, mode, reps, nblk,
                                                nblk2))
        return
    if nobj2 - nobj >= thr:
        out.fail('leak-objects-' + entry,
                 '%s (%s) repeated %d times: the number of gc-tracked '
                 'objects grew from %d to %d' % (entry, mode, reps, nobj,
                                                 nobj2))


# ---------------------------------------------------------------------------
# stress


def _diag(regs, r, f0, started, finished):
    """state of the registries at the moment a wrong answer was seen"""
    lines = ['mutations finished before the call: %d; now started %d, '
             'finished %d' % (f0, started, finished)]
    for i, reg in enumerate(regs):
        L = reg._v_lookup
        lines.append(
            'registry %d%s: bases=%r ro=%r generation=%r recorded ro=%r '
            'generations=%r' % (
                i, ' (looked up)' if i == r else '',
                [regs.index(b) for b in reg.__bases__],
                [regs.index(b) for b in reg.ro], reg._generation,
                [regs.index(b) for b in getattr(L, '_verify_ro', ()) or ()]
                if hasattr(L, '_verify_ro') else '?',
                getattr(L, '_verify_generations', '?')))
    return '\n'.join(lines)


def run_stress(case, cfg, out):
    W = World(case, out)
    keys = []
    for kk in case['keys']:
        for e in ENTRY[:9]:
            k = W.norm_key(e, kk)
            if k not in keys:
                keys.append(k)
    main = keys[0]
    W.setup_contents(main)
    log0 = list(W.log)
    nthreads = case['threads']
    dur = float(cfg.get('dur', 2.0))
    out.tag('threads_%d' % nthreads,
            'mutator' if case['mutator'] else 'lookups_only')

    # the cycle of states: each step and, afterwards, its inverse in
    # reverse order
    steps = []
    if case['mutator']:
        for op in case['cycle']:
            for m in W.concretize(op, main):
                inv = None
                if m[0] == 'register':
                    inv = ('unregister',) + m[1:5]
                elif m[0] == 'subscribe':
                    inv = ('unsubscribe',) + m[1:5]
                elif m[0] == 'unregister':
                    cur = [x for x in W.regs_made
                           if x[1] == m[1] and x[2] == m[2] and
                           x[3] == m[3] and x[4] == m[4]]
                    if not cur:
                        continue
                    inv = cur[-1]
                elif m[0] == 'bases':
                    inv = ('bases', m[1], list(W.U.model.bases[m[1]]))
                elif m[0] == 'ibases':
                    inv = ('ibases', m[1], list(W.ibases[m[1]]))
                if inv is None:
                    continue
                # apply to the model state so that later steps are made
                # concrete against it
                if m[0] == 'ibases':
                    W.do(m)
                elif m[0] == 'bases':
                    W.U.model.set_bases(m[1], list(m[2]))
                steps.append((m, inv))
        # undo the model-side effects again
        for m, inv in reversed(steps):
            if inv[0] == 'ibases':
                W.do(inv)
            elif inv[0] == 'bases':
                W.U.model.set_bases(inv[1], list(inv[2]))
    seq = [m for m, _ in steps] + [inv for _, inv in reversed(steps)]

    def apply(regs, m):
        if m[0] == 'ibases':
            W.do(m)
        else:
            apply_concrete(regs, m)

    def answers(regs):
        return [W.answer(regs, k) for k in keys]

    # single-threaded reference: answers in every state of two full cycles
    ref = W.build(log0)
    per_cycle = []
    for cyc in range(2):
        states = [answers(ref)]
        for m in seq:
            apply(ref, m)
            states.append(answers(ref))
        per_cycle.append(states)
    if per_cycle[0] != per_cycle[1]:
        out.tag('cycle_not_periodic')
        out.adjusted += 1
        return
    # A[j] = answers after j mutations of a cycle (A[len(seq)] == A[0])
    A = per_cycle[0]
    nseq = len(seq)
    if any(A[j] != A[0] for j in range(len(A))):
        out.nontrivial = True
    elif not seq:
        out.nontrivial = nthreads >= 2

    old = sys.getswitchinterval()
    sys.setswitchinterval(1e-6)
    problems = []
    judged = [0, 0, 0]       # exact, one mutation overlapped, not judged
    try:
        t_end = time.time() + dur
        rounds = 0
        while time.time() < t_end and not problems:
            rounds += 1
            regs = W.build(log0)
            stop = [False]
            # mutations started / finished (written by the mutator only)
            started = [0]
            finished = [0]
            barrier = threading.Barrier(nthreads + (1 if seq else 0))

            def looker(n):
                try:
                    barrier.wait()
                    order = list(range(len(keys)))
                    order = order[n % len(order):] + order[:n % len(order)]
                    it = 0
                    while not stop[0]:
                        for i in order:
                            f0 = finished[0]
                            try:
                                a = W.answer(regs, keys[i])
                            except Exception as e:  # noqa
                                import traceback
                                problems.append((
                                    'stress-exception:%s' %
                                    type(e).__name__,
                                    'lookup thread: %s raised %r\n%s' % (
                                        keys[i][0], e,
                                        traceback.format_exc()[-1200:])))
                                return
                            s1 = started[0]
                            # mutations f0+1 .. s1 may have overlapped
                            # the call
                            if s1 - f0 > 1 or (
                                    s1 - f0 == 1 and
                                    seq[f0 % nseq][0] == 'ibases'):
                                # several mutations, or a change of a
                                # specification (see run_inject)
                                judged[2] += 1
                                continue
                            ok = [A[f0 % nseq][i]] if nseq else [A[0][i]]
                            if s1 - f0 == 1:
                                ok.append(A[(f0 + 1) % nseq][i])
                                judged[1] += 1
                            else:
                                judged[0] += 1
                            if a not in ok:
                                diag = _diag(regs, keys[i][1], f0,
                                             started[0], finished[0])
                                problems.append((
                                    'stress-wrong-' + keys[i][0],
                                    'lookup thread: %s for %r answered %r '
                                    'while at most %d mutation (%r) was in '
                                    'progress; correct answers before/after '
                                    'it: %r\n%s' % (
                                        keys[i][0], keys[i][2:], a,
                                        s1 - f0,
                                        seq[f0 % nseq][0] if nseq else None,
                                        ok, diag)))
                                return
                        it += 1
                        if not seq and it >= 3:
                            return
                except threading.BrokenBarrierError:
                    pass

            def mutator():
                try:
                    barrier.wait()
                    while not stop[0]:
                        for m in seq:
                            started[0] += 1
                            apply(regs, m)
                            finished[0] += 1
                            # let the lookup threads run: most lookups
                            # should overlap at most one mutation
                            time.sleep(0.0003)
                except threading.BrokenBarrierError:
                    pass
                except Exception as e:  # noqa
                    import traceback
                    problems.append(('stress-mutator-exception:%s' %
                                     type(e).__name__,
                                     'the mutator thread failed while '
                                     'lookup threads were running (the same '
                                     'cycle runs cleanly alone):\n' +
                                     traceback.format_exc()[-1500:]))

            ths = [threading.Thread(target=looker, args=(n,))
                   for n in range(nthreads)]
            if seq:
                ths.append(threading.Thread(target=mutator))
            for t in ths:
                t.start()
            if seq:
                time.sleep(min(0.4, max(0.05, t_end - time.time())))
                stop[0] = True
            for t in ths:
                t.join(120)
            stop[0] = True
            if any(t.is_alive() for t in ths):
                # not a verdict about the property: reported as a harness
                # error with the stacks of all threads
                import faulthandler
                faulthandler.dump_traceback(all_threads=True)
                raise RuntimeError('stress threads did not stop within '
                                   '120 s (stacks on stderr)')
            out.checks += 1
            # restore shared specifications if the mutator died in the
            # middle of a cycle
            for m, inv in reversed(steps):
                if inv[0] == 'ibases' and W.ibases[inv[1]] != inv[2]:
                    W.do(inv)
            if not problems:
                # the mutator stops after a complete cycle: nothing
                # computed in between may survive in a cache
                now = answers(regs)
                if now != A[0]:
                    bad = [i for i in range(len(keys))
                           if now[i] != A[0][i]][0]
                    problems.append((
                        'stress-stale-' + keys[bad][0],
                        'after the threads stopped %s for %r answers %r, '
                        'expected %r' % (keys[bad][0], keys[bad][2:],
                                         now[bad], A[0][bad])))
        out.tag(*(['rounds'] * min(rounds, 50)))
        tot = sum(judged) or 1
        out.tag('judged_exact_pct_%d' % (10 * (10 * judged[0] // tot)),
                'judged_overlap1_pct_%d' % (10 * (10 * judged[1] // tot)),
                'unjudged_pct_%d' % (10 * (10 * judged[2] // tot)))
    finally:
        sys.setswitchinterval(old)
    for sig, msg in problems[:1]:
        out.fail(sig, msg)


# ---------------------------------------------------------------------------


def run_case(case, cfg, out):
    kind = case.get('kind', 'inject')
    try:
        if kind == 'inject':
            run_inject(case, cfg, out)
        elif kind == 'preempt':
            run_preempt(case, cfg, out)
        elif kind == 'leak':
            run_leak(case, cfg, out)
        elif kind == 'stress':
            run_stress(case, cfg, out)
        elif kind == 'sched':
            run_sched(case, cfg, out)
        elif kind == 'preempt2':
            run_preempt2(case, cfg, out)
        else:
            raise ValueError(kind)
    finally:
        H.reset()
        sys.settrace(None)


ASSUMPTIONS = [
    'free-running thread schedules are sampled (stress); the deterministic '
    'campaigns cover every callback out of the lookup code (inject) and '
    'every bytecode boundary of zope.interface\'s own Python frames for two '
    'operations in flight (preempt)',
    'rebuild() is used as an interrupting action but not as the interrupted '
    'operation (it is documented as replacing every internal structure)',
    'the ownership audit keeps the cache containers alive, so a released '
    'container is detected by its reference count, not by a crash; the '
    'thorough tier repeats the inject campaign without the audit on an '
    'AddressSanitizer build',
]
