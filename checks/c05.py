"""C05 Lookup caches are transparent: answers never depend on earlier
lookups."""
from hypothesis import strategies as st

from vlib import models
from vlib import reguniv
from vlib.reguniv import IDX
from vlib.reguniv import NAMES
from vlib.reguniv import Universe
from vlib.reguniv import Val

RULE = ('histories (<=40 ops) over chains/DAGs of 1-3 registries (both '
        'flavours, verifying over invalidating allowed): register / '
        'unregister / subscribe / unsubscribe on any registry, registry '
        '__bases__ reassignment, rebuild(), __bases__ reassignment of '
        'required-side interfaces, classImplements / classImplementsOnly / '
        'directlyProvides / alsoProvides / noLongerProvides on looked-up '
        'classes and objects, and lookups through all nine entry points '
        '(arity 0-2, names); after EVERY mutation every key queried so far is '
        'queried again on the real registries and on a twin chain on which '
        'the whole mutation history was replayed and which never served a '
        'lookup - answers must be identical; mutations are aimed at keys '
        'already queried with p~0.6; non-trivial = some key queried before a '
        'mutation gets a different (twin) answer after it; distinct by SHA-1')

ENTRY = ['lookup', 'lookup1', 'lookupAll', 'names', 'subscriptions',
         'queryAdapter', 'adapter_hook', 'queryMultiAdapter', 'subscribers']
GC_EVERY = 20


# thorough tier: coverage-guided campaigns on top of the random ones
ATHERIS = [{'impl': 'py', 'n': 6000, 'name': 'py-atheris'},
           {'impl': 'c', 'n': 6000, 'name': 'c-atheris'}]


def configs(tier, seed):
    n = 2000 if tier == 'quick' else 16000
    out = [{'name': impl + '-cache', 'impl': impl, 'mode': 'hyp', 'n': n}
           for impl in ('c', 'py')]
    # complete sweep: entry point x chain flavours x kind of change, the
    # warmed entry point being the first thing the registry serves afterwards
    out += [{'name': impl + '-firstcall', 'impl': impl, 'mode': 'enum',
             'no_regress': True} for impl in ('c', 'py')]
    return out


def coverage_extra(tier):
    return {'partitions': {
        'first call after a change: 9 entry points x 4 registry chains x 2 '
        'looked-up registries x 14 kinds of change': {'exhaustive': True}}}


SWEEP_CHANGES = [
    [['treg', 0, 0, 0, 0, False]],          # in the looked-up registry
    [['treg', 1, 0, 0, 0, False]],          # in its first base
    [['treg', 2, 0, 0, 0, False]],          # at the top
    [['treg', 2, 0, 1, 1, False]],          # for a more specific key
    [['unreg', 0]],
    [['tsub', 1, 0, 0, False]],
    [['unsub', 0, True]],
    [['unsub', 0, False]],
    [['rebuild', 0], ['treg', 2, 0, 0, 0, False]],
    [['burst', 0, 1, 0, 0, True]],
    [['rbases', 1, []]],
    [['ibases', 1, [], False]],
    [['conly', 1, []]],
    [['dprov', 0, [1]], ['cimpl', 0, [1]]],
]


def enumerate_cases(cfg):
    chains = [['plain', 'plain', 'plain'], ['plain', 'verifying', 'verifying'],
              ['plain', 'plain', 'verifying'],
              ['verifying', 'verifying', 'verifying']]
    for flav in chains:
        bp = {'ibases': [[], [0]],
              'classes': [{'bases': [], 'implements': [0], 'only': False},
                          {'bases': [0], 'implements': [1], 'only': False}],
              'insts': [{'cls': 1, 'direct': []}],
              'pbases': [[], [0]],
              'regs': [{'bases': [], 'flavour': flav[0]},
                       {'bases': [0], 'flavour': flav[1]},
                       {'bases': [1], 'flavour': flav[2]}]}
        for entry in ENTRY:
            for r in (2, 1):
                for change in SWEEP_CHANGES:
                    ops = [['reg', 0, [['I', 0]], 0, '', False],
                           ['reg', 0, [['I', 1]], 1, '', False],
                           ['sub', 0, [['I', 0]], 0, False],
                           ['sub', 1, [['I', 0]], 0, False],
                           ['query', entry, r, [['o', 0]], 0, ''],
                           ['query', entry, r, [['o', 0]], 0, '']]
                    ops += change
                    yield {'bp': bp, 'ops': ops, 'checks': [True],
                           'last_first': True}


def objref():
    return st.one_of(st.tuples(st.just('o'), IDX).map(list),
                     st.tuples(st.just('i'), IDX).map(list),
                     st.tuples(st.just('c'), IDX).map(list))


@st.composite
def op_strategy(draw):
    k = draw(st.sampled_from(
        ['query'] * 8 + ['reg'] * 3 + ['treg'] * 4 + ['unreg'] * 3 +
        ['sub'] * 2 + ['tsub'] * 2 + ['unsub'] * 2 + ['rbases', 'rebuild'] +
        ['ibases'] * 2 + ['cimpl'] * 2 + ['conly', 'dprov', 'dprov', 'aprov',
                                          'nprov'] + ['tspec'] * 4 +
        ['burst'] + ['classcut'] * 2 + ['dsame'] * 2))
    if k == 'query':
        arity = draw(st.sampled_from([0, 1, 1, 1, 2, 2, 2]))
        entry = draw(st.sampled_from(ENTRY))
        p = draw(IDX)
        if entry in ('subscriptions', 'subscribers') and \
                draw(st.booleans()):
            p = None
        return ['query', entry, draw(IDX),
                [draw(objref()) for _ in range(arity)], p,
                draw(st.sampled_from(NAMES + ['']))]
    if k == 'reg':
        return ['reg', draw(IDX), draw(reguniv.reg_key_biased(2)), draw(IDX),
                draw(st.sampled_from(NAMES + [''])), draw(st.booleans())]
    if k == 'treg':     # aimed at a key queried before
        return ['treg', draw(IDX), draw(IDX), draw(st.integers(0, 40)),
                draw(st.integers(0, 40)), draw(st.booleans())]
    if k == 'unreg':
        return ['unreg', draw(IDX)]
    if k == 'sub':
        return ['sub', draw(IDX), draw(reguniv.reg_key_biased(2)),
                draw(st.one_of(st.none(), IDX, IDX)), draw(st.booleans())]
    if k == 'tsub':
        return ['tsub', draw(IDX), draw(IDX), draw(st.integers(0, 40)),
                draw(st.booleans())]
    if k == 'unsub':
        return ['unsub', draw(IDX), draw(st.booleans())]
    if k == 'rbases':
        return ['rbases', draw(IDX), draw(st.lists(IDX, max_size=2))]
    if k == 'rebuild':
        return ['rebuild', draw(IDX)]
    if k == 'dsame':
        # the declaration made last on an instance, repeated on another
        # instance of the same class (they share the cached declaration
        # object, whatever happened to the class in between - seed C02h)
        return ['dsame']
    if k == 'classcut':
        return ['classcut', draw(IDX), draw(st.integers(0, 40)),
                draw(st.integers(0, 40)), draw(st.booleans())]
    if k == 'burst':
        # rebuild followed by a few targeted registrations, no lookups
        # in between
        # last element: keep registering until the registry's change
        # counter is back at the value it had before the rebuild (if the
        # rebuild lowered it): a verifying registry below must still
        # notice (seed C05b)
        return ['burst', draw(IDX), draw(st.integers(0, 3)), draw(IDX),
                draw(st.integers(0, 40)), draw(st.booleans())]
    if k == 'tspec':
        return ['tspec', draw(IDX), draw(st.integers(0, 40)),
                draw(st.lists(IDX, min_size=1, max_size=2)),
                draw(st.integers(0, 3))]
    if k == 'ibases':
        return ['ibases', draw(IDX), draw(st.lists(IDX, max_size=2)),
                draw(st.booleans())]
    if k in ('cimpl', 'conly'):
        # classImplementsOnly(cls) without interfaces is a declaration too:
        # it only cuts the class off from what its bases implement
        return [k, draw(IDX), draw(st.lists(IDX, min_size=0 if k == 'conly'
                                            else 1, max_size=2))]
    if k in ('dprov', 'aprov'):
        return [k, draw(IDX), draw(st.lists(IDX, max_size=2))]
    return ['nprov', draw(IDX), draw(IDX)]


@st.composite
def case_strategy(draw):
    bp = draw(reguniv.blueprint(max_regs=3, max_classes=3, max_insts=3))
    if not bp['classes']:
        bp['classes'] = [{'bases': [], 'implements': [0], 'only': False}]
    if not bp['insts']:
        bp['insts'] = [{'cls': 0, 'direct': []}]
    if draw(st.integers(0, 3)) == 0:
        # a chain of classes most of which declare nothing: a change in
        # the middle then alters the resolution order of the classes below
        # only by class specifications, not by interfaces
        depth = draw(st.integers(3, 4))
        bp['classes'] = [
            {'bases': [c - 1] if c else [],
             'implements': draw(st.lists(
                 st.integers(0, len(bp['ibases']) - 1), max_size=1))
             if draw(st.integers(0, 2)) == 0 else [],
             'only': False} for c in range(depth)]
        bp['insts'] = [{'cls': depth - 1 - (k % 2),
                        'direct': draw(st.lists(
                            st.integers(0, len(bp['ibases']) - 1),
                            max_size=1))}
                       for k in range(draw(st.integers(1, 3)))]
    if len(bp['insts']) >= 2 and draw(st.booleans()):
        bp['insts'][1]['cls'] = bp['insts'][0]['cls']
    ops = [draw(op_strategy()) for _ in range(draw(st.integers(8, 40)))]
    checks = draw(st.lists(st.booleans(), min_size=1, max_size=6))
    return {'bp': bp, 'ops': ops, 'checks': checks}


def strategy(cfg):
    return case_strategy()


class Factory(Val):
    __slots__ = ('returns_none',)

    def __init__(self, label, returns_none):
        Val.__init__(self, label)
        self.returns_none = returns_none

    def __call__(self, *objs):
        if self.returns_none:
            return None
        return ('made', self.label) + tuple(id(o) for o in objs)


def run_case(case, cfg, out):
    from zope.interface import alsoProvides
    from zope.interface import classImplements
    from zope.interface import classImplementsOnly
    from zope.interface import directlyProvides
    from zope.interface import implementedBy
    from zope.interface import noLongerProvides
    from zope.interface import providedBy
    from zope.interface.adapter import AdapterRegistry
    from zope.interface.adapter import VerifyingAdapterRegistry

    U = Universe(case['bp'])
    out.adjusted += U.adjusted
    M = U.model              # only used for the registry DAG / C3 here
    ibases = [list(b) for b in case['bp']['ibases']]
    nI = len(ibases)
    log = []                 # replayable registry mutations
    regs_made = []           # (r, req, prov, name, value)
    subs_made = []           # (r, req, prov, value)
    queried = []             # keys
    last_twin = {}
    counter = [0]
    D = object()

    def newfactory(rn):
        counter[0] += 1
        return Factory(counter[0], rn)

    def build_twin():
        twin = []
        for r in range(len(U.regs)):
            cls = AdapterRegistry if U.flavours[r] == 'plain' \
                else VerifyingAdapterRegistry
            twin.append(cls())
        # initial bases as in the blueprint (after adjustment)
        for r in range(len(U.regs)):
            twin[r].__bases__ = tuple(twin[b] for b in initial_bases[r])
        for m in log:
            kind = m[0]
            if kind == 'register':
                twin[m[1]].register(m[2], m[3], m[4], m[5])
            elif kind == 'unregister':
                twin[m[1]].unregister(m[2], m[3], m[4])
            elif kind == 'subscribe':
                twin[m[1]].subscribe(m[2], m[3], m[4])
            elif kind == 'unsubscribe':
                if m[4] is None:
                    twin[m[1]].unsubscribe(m[2], m[3])
                else:
                    twin[m[1]].unsubscribe(m[2], m[3], m[4])
            elif kind == 'bases':
                twin[m[1]].__bases__ = tuple(twin[b] for b in m[2])
            elif kind == 'rebuild':
                twin[m[1]].rebuild()
        return twin

    initial_bases = [list(M.bases[r]) for r in range(len(U.regs))]

    def resolve(ref):
        k, v = ref
        if k == 'o':
            return U.insts[v % len(U.insts)]
        if k == 'c':
            return U.classes[v % len(U.classes)]
        return U.ifaces[v % nI]

    def as_spec(ref):
        k, v = ref
        if k == 'o':
            return providedBy(U.insts[v % len(U.insts)])
        if k == 'c':
            return implementedBy(U.classes[v % len(U.classes)])
        return U.ifaces[v % nI]

    def as_object(ref):
        k, v = ref
        if k == 'o':
            return U.insts[v % len(U.insts)]
        if k == 'c':
            return U.classes[v % len(U.classes)]()   # fresh instance
        # an object that directly provides the interface
        ob = holders.get(v % nI)
        if ob is None:
            ob = type('Holder', (), {})()
            directlyProvides(ob, U.ifaces[v % nI])
            holders[v % nI] = ob
        return ob

    holders = {}

    def answer(registries, key):
        entry, r, refs, p, name = key
        reg = registries[r]
        prov = None if p is None else U.prov(p)
        if entry in ('lookup', 'lookup1', 'lookupAll', 'names',
                     'subscriptions'):
            specs = [as_spec(x) for x in refs]
            if entry == 'lookup':
                return ('v', id(reg.lookup(specs, prov, name, D)))
            if entry == 'lookup1':
                if len(specs) != 1:
                    return ('v', id(reg.lookup(specs, prov, name, D)))
                return ('v', id(reg.lookup1(specs[0], prov, name, D)))
            if entry == 'lookupAll':
                return ('all', sorted((n, id(v)) for n, v in
                                      reg.lookupAll(specs, prov)))
            if entry == 'names':
                return ('names', sorted(reg.names(specs, prov)))
            return ('subs', [id(v) for v in reg.subscriptions(specs, prov)])
        objs = [as_object(x) for x in refs]
        if entry == 'queryAdapter':
            if len(objs) != 1:
                return ('r', repr(reg.queryMultiAdapter(objs, prov, name,
                                                        'dflt')))
            return ('r', repr(reg.queryAdapter(objs[0], prov, name, 'dflt')))
        if entry == 'adapter_hook':
            if len(objs) != 1:
                return ('r', repr(reg.queryMultiAdapter(objs, prov, name,
                                                        'dflt')))
            return ('r', repr(reg.adapter_hook(prov, objs[0], name, 'dflt')))
        if entry == 'queryMultiAdapter':
            return ('r', repr(reg.queryMultiAdapter(objs, prov, name,
                                                    'dflt')))
        return ('r', repr(reg.subscribers(objs, prov)))

    def norm(ans, objs_real=None):
        return ans

    def recheck(stage, rot=0, subset=False):
        twin = build_twin()
        keys = queried[-30:]
        if rot % 2 or case.get('last_first'):
            # the key queried last goes first: the first lookup a registry
            # serves after a mutation is the one that has to notice it
            # (a later one finds the caches already dropped)
            keys = keys[-1:] + keys[:-1]
        else:
            rot = rot % len(keys)
            keys = keys[rot:] + keys[:rot]
        if subset:
            keys = keys[:1 + len(keys) // 3]
        for key in keys:
            out.checks += 1
            # object entry points create result tuples that embed object
            # ids; fresh instances differ between the two calls, so those
            # keys use the stable parts only
            a = answer(U.regs, key)
            b = answer(twin, key)
            if key[0] in ('queryAdapter', 'adapter_hook', 'queryMultiAdapter',
                          'subscribers') and any(x[0] == 'c' for x in key[2]):
                a = _strip_ids(a)
                b = _strip_ids(b)
            if a != b:
                out.fail('stale-' + key[0],
                         '%s: %s on registry %d (%s) for %r/%s/%r answers %r, '
                         'a registry that never served a lookup answers %r' % (
                             stage, key[0], key[1], U.flavours[key[1]],
                             key[2], key[3], key[4], a, b))
                return False
            kk = repr(key)
            if kk in last_twin and last_twin[kk] != _strip_ids(b):
                out.nontrivial = True
            last_twin[kk] = _strip_ids(b)
        return True

    def _strip_ids(ans):
        if ans[0] != 'r':
            return ans
        import re
        return ('r', re.sub(r'\d{6,}', '#', ans[1]))

    def spec_pool_for(key):
        """specs a registration could use to be applicable to ``key``"""
        out_ = []
        for x in key[2]:
            s = as_spec(x) if key[0] in ENTRY[:5] else providedBy(as_object(x))
            out_.append(list(s.__sro__) + [None])
        return out_

    last_decl = [None]
    skip_pattern = case.get('checks') or [True]
    for n, op in enumerate(case['ops']):
        kind = op[0]
        mutated = True
        if kind == 'query':
            _, entry, r, refs, p, name = op
            key = (entry, r % len(U.regs), tuple(map(tuple, refs)), p, name)
            if entry in ('lookup1', 'queryAdapter', 'adapter_hook') and \
                    len(refs) != 1:
                key = (entry, key[1], (tuple(refs[0]) if refs else ('i', 0),),
                       p, name)
            answer(U.regs, key)
            if key not in queried:
                queried.append(key)
            out.tag('query_' + entry)
            mutated = False
        elif kind in ('reg', 'treg'):
            if kind == 'reg':
                _, r, reqrefs, p, name, rn = op
                r = r % len(U.regs)
                req = [U.spec(ref) for ref in reqrefs]
                prov = U.prov(p)
            else:
                _, r, which, pick, ppick, rn = op
                if not queried:
                    continue
                key = queried[which % len(queried)]
                pools = spec_pool_for(key)
                req = [pool[(pick + i) % len(pool)]
                       for i, pool in enumerate(pools)]
                ext = [q for q in U.provs if key[3] is None or
                       q.isOrExtends(U.prov(key[3]))]
                prov = ext[ppick % len(ext)]
                name = key[4]
                chain = M.ro(key[1])
                r = chain[r % len(chain)]
                out.tag('targeted_register')
            v = newfactory(rn)
            U.regs[r].register(req, prov, name, v)
            log.append(('register', r, req, prov, name, v))
            regs_made.append((r, req, prov, name, v))
        elif kind == 'unreg':
            if not regs_made:
                continue
            r, req, prov, name, v = regs_made[op[1] % len(regs_made)]
            U.regs[r].unregister(req, prov, name)
            log.append(('unregister', r, req, prov, name))
        elif kind in ('sub', 'tsub'):
            if kind == 'sub':
                _, r, reqrefs, p, rn = op
                r = r % len(U.regs)
                req = [U.spec(ref) for ref in reqrefs]
                prov = None if p is None else U.prov(p)
            else:
                _, r, which, pick, rn = op
                if not queried:
                    continue
                key = queried[which % len(queried)]
                pools = spec_pool_for(key)
                req = [pool[(pick + i) % len(pool)]
                       for i, pool in enumerate(pools)]
                if key[3] is None:
                    prov = None
                else:
                    ext = [q for q in U.provs
                           if q.isOrExtends(U.prov(key[3]))]
                    prov = ext[pick % len(ext)]
                chain = M.ro(key[1])
                r = chain[r % len(chain)]
                out.tag('targeted_subscribe')
            v = newfactory(rn)
            U.regs[r].subscribe(req, prov, v)
            log.append(('subscribe', r, req, prov, v))
            subs_made.append((r, req, prov, v))
        elif kind == 'unsub':
            if not subs_made:
                continue
            r, req, prov, v = subs_made[-1 - (op[1] % len(subs_made))]
            if op[2]:
                U.regs[r].unsubscribe(req, prov, v)
                log.append(('unsubscribe', r, req, prov, v))
            else:
                U.regs[r].unsubscribe(req, prov)
                log.append(('unsubscribe', r, req, prov, None))
            out.tag('unsubscribe')
        elif kind == 'rbases':
            r = op[1] % len(U.regs)
            desc = set()
            # registries that have r in their chain cannot become its base
            for x in range(len(U.regs)):
                if r in (M.ro(x) or [x]):
                    desc.add(x)
            cands = [x for x in range(len(U.regs)) if x not in desc and (
                U.flavours[r] != 'plain' or U.flavours[x] == 'plain')]
            nb = []
            for x in op[2]:
                if cands:
                    c = cands[x % len(cands)]
                    if c not in nb:
                        nb.append(c)
            old = list(M.bases[r])
            M.set_bases(r, nb)
            if any(M.ro(x) is None for x in range(len(U.regs))):
                nb = nb[:1]
                M.set_bases(r, nb)
                out.adjusted += 1
                if any(M.ro(x) is None for x in range(len(U.regs))):
                    M.set_bases(r, old)
                    continue
            U.regs[r].__bases__ = tuple(U.regs[b] for b in nb)
            log.append(('bases', r, list(nb)))
            out.tag('registry_rebase')
        elif kind == 'rebuild':
            r = op[1] % len(U.regs)
            U.regs[r].rebuild()
            log.append(('rebuild', r))
            out.tag('rebuild')
        elif kind == 'classcut':
            # A class in the middle of the MRO of a looked-up object stops
            # inheriting (classImplementsOnly without interfaces) while
            # something is registered for a class above it: the looked-up
            # specification changes only through notifications, and only
            # in its class specifications.
            _, which, px, py, subscribe = op
            cands = [k for k in queried
                     if any(x[0] in ('o', 'c') for x in k[2])]
            if not cands:
                continue
            key = cands[which % len(cands)]
            pos = [i for i, x in enumerate(key[2]) if x[0] in ('o', 'c')]
            i = pos[px % len(pos)]
            cls = type(resolve(key[2][i])) if key[2][i][0] == 'o' else \
                resolve(key[2][i])
            mro = [c for c in cls.__mro__ if c in U.classes]
            if len(mro) < 3:
                out.tag('classcut_too_shallow')
                continue
            xi = 1 + px % (len(mro) - 2)
            X = mro[xi]
            Y = mro[xi + 1 + py % (len(mro) - xi - 1)]
            req = [None] * len(key[2])
            req[i] = implementedBy(Y)
            chain = M.ro(key[1])
            r = chain[py % len(chain)]
            v = newfactory(False)
            if subscribe or key[0] in ('subscriptions', 'subscribers'):
                prov = None if key[3] is None else U.prov(key[3])
                U.regs[r].subscribe(req, prov, v)
                log.append(('subscribe', r, req, prov, v))
                subs_made.append((r, req, prov, v))
            else:
                prov = U.prov(key[3] if key[3] is not None else 0)
                U.regs[r].register(req, prov, key[4], v)
                log.append(('register', r, req, prov, key[4], v))
                regs_made.append((r, req, prov, key[4], v))
            answer(U.regs, key)          # fills the caches
            classImplementsOnly(X)
            out.tag('classcut')
        elif kind == 'burst':
            _, r, count, which, pick = op[:5]
            r = r % len(U.regs)
            g0 = U.regs[r]._generation
            U.regs[r].rebuild()
            log.append(('rebuild', r))
            if len(op) > 5 and op[5] and U.regs[r]._generation < g0:
                count = min(g0 - U.regs[r]._generation, 15)
                out.tag('rebuild_burst_counter_matched')
            for j in range(count):
                if queried:
                    key = queried[(which + j) % len(queried)]
                    pools = spec_pool_for(key)
                    req = [pool[(pick + i + j) % len(pool)]
                           for i, pool in enumerate(pools)]
                    ext = [q for q in U.provs if key[3] is None or
                           q.isOrExtends(U.prov(key[3]))]
                    prov = ext[(pick + j) % len(ext)]
                    name = key[4]
                else:
                    req, prov, name = [], U.provs[0], ''
                v = newfactory(False)
                U.regs[r].register(req, prov, name, v)
                log.append(('register', r, req, prov, name, v))
                regs_made.append((r, req, prov, name, v))
            out.tag('rebuild_burst')
        elif kind == 'tspec':
            _, which, pick, idxs, mode = op
            if not queried:
                continue
            key = queried[which % len(queried)]
            if not key[2]:
                continue
            ref = key[2][-1 - (pick % 2) % len(key[2])]
            targets = [U.ifaces[i % nI] for i in idxs]
            def mro_class(cls):
                # the class itself or one of the generated classes it
                # inherits from (a change in the middle of the MRO reaches
                # the looked-up specification only through notifications)
                cands = [c for c in cls.__mro__ if c in U.classes]
                return cands[(pick // 2) % len(cands)]

            def only_targets():
                return targets if pick % 3 else []

            if ref[0] == 'o':
                ob = U.insts[ref[1] % len(U.insts)]
                if mode == 0:
                    directlyProvides(ob, *targets)
                elif mode == 1:
                    alsoProvides(ob, *targets)
                elif mode == 2:
                    classImplements(mro_class(type(ob)), *targets)
                else:
                    classImplementsOnly(mro_class(type(ob)),
                                        *only_targets())
            elif ref[0] == 'c':
                cls = mro_class(U.classes[ref[1] % len(U.classes)])
                if mode % 2:
                    classImplementsOnly(cls, *only_targets())
                else:
                    classImplements(cls, *targets)
            else:
                # rebase the interface itself or one of its ancestors
                anc = [j for j in models.reach(ibases, ref[1] % nI)]
                i = sorted(anc)[pick % len(anc)]
                desc = models.descendants(ibases, i)
                cands = [j for j in range(nI) if j not in desc]
                nb = []
                for x in idxs:
                    if cands:
                        c = cands[x % len(cands)]
                        if c not in nb:
                            nb.append(c)
                ibases[i] = nb
                U.ifaces[i].__bases__ = tuple(U.ifaces[j] for j in nb) or \
                    (U.Interface,)
            out.tag('targeted_spec_change')
        elif kind == 'ibases':
            i = op[1] % nI
            desc = models.descendants(ibases, i)
            cands = [j for j in range(nI) if j not in desc]
            nb = []
            for x in op[2]:
                if cands:
                    c = cands[x % len(cands)]
                    if c not in nb:
                        nb.append(c)
            if op[3] and ibases[i]:
                nb = list(reversed(ibases[i]))
            ibases[i] = nb
            U.ifaces[i].__bases__ = tuple(U.ifaces[j] for j in nb) or \
                (U.Interface,)
            out.tag('interface_rebase')
        elif kind == 'cimpl':
            cls = U.classes[op[1] % len(U.classes)]
            classImplements(cls, *[U.ifaces[i % nI] for i in op[2]])
            out.tag('classImplements')
        elif kind == 'conly':
            cls = U.classes[op[1] % len(U.classes)]
            classImplementsOnly(cls, *[U.ifaces[i % nI] for i in op[2]])
            out.tag('classImplementsOnly')
        elif kind == 'dprov':
            ob = U.insts[op[1] % len(U.insts)]
            directlyProvides(ob, *[U.ifaces[i % nI] for i in op[2]])
            last_decl[0] = (ob, directlyProvides, op[2])
            out.tag('directlyProvides')
        elif kind == 'aprov':
            ob = U.insts[op[1] % len(U.insts)]
            alsoProvides(ob, *[U.ifaces[i % nI] for i in op[2]])
            last_decl[0] = (ob, alsoProvides, op[2])
            out.tag('alsoProvides')
        elif kind == 'dsame':
            if last_decl[0] is None:
                continue
            ob0, fn, idxs = last_decl[0]
            twins = [o for o in U.insts if o is not ob0 and
                     type(o) is type(ob0)]
            if not twins:
                continue
            fn(twins[0], *[U.ifaces[i % nI] for i in idxs])
            out.tag('same_declaration_on_twin')
        elif kind == 'nprov':
            ob = U.insts[op[1] % len(U.insts)]
            try:
                noLongerProvides(ob, U.ifaces[op[2] % nI])
            except ValueError:
                pass
            out.tag('noLongerProvides')
        # not after every mutation: several mutations in a row without any
        # lookup in between are histories too
        if mutated and queried and skip_pattern[n % len(skip_pattern)]:
            if not recheck('after op %d %r' % (n, op[:2]), rot=n * 7 + len(log),
                           subset=(n % 3 == 0)):
                return
    if queried:
        recheck('end', rot=len(log))
