"""C06 Registries consult exactly their current base chain, in resolution
order."""
from hypothesis import strategies as st

from vlib import reguniv
from vlib.reguniv import IDX
from vlib.reguniv import NAMES
from vlib.reguniv import Universe
from vlib.reguniv import Val

RULE = ('registry DAGs of 2-5 registries of either flavour (verifying over '
        'invalidating allowed), kept C3-consistent by construction, or the '
        'same shapes built from Components objects (each maps onto two '
        'registries); histories of __bases__ reassignment at ANY level, '
        'registrations and subscriptions in any member, interleaved with '
        'lookup / lookupAll / subscriptions from any registry (bottom ones '
        'preferred), some mutations not followed by a query; oracle = '
        'reference model over the C3 order of the current model DAG, and '
        'registry.ro itself; non-trivial = a lookup issued from a registry '
        '>=2 levels below a registry that was rebased earlier, whose answer '
        'depends on the chain; distinct by SHA-1')

GC_EVERY = 20


# thorough tier: coverage-guided campaigns on top of the random ones
ATHERIS = [{'impl': 'py', 'n': 30000, 'name': 'py-atheris'},
           {'impl': 'c', 'n': 30000, 'name': 'c-atheris'}]

def configs(tier, seed):
    n = 2500 if tier == 'quick' else 30000
    return [{'name': impl + '-chain', 'impl': impl, 'mode': 'hyp', 'n': n}
            for impl in ('c', 'py')]


@st.composite
def op_strategy(draw):
    k = draw(st.sampled_from(['rebase'] * 5 + ['reg'] * 4 + ['sub'] * 2 +
                             ['unreg'] + ['query'] * 6))
    if k == 'rebase':
        return ['rebase', draw(IDX), draw(st.lists(IDX, max_size=3)),
                draw(st.booleans())]
    if k == 'reg':
        return ['reg', draw(IDX), draw(st.lists(IDX, max_size=1)), draw(IDX),
                draw(st.sampled_from(NAMES + [''])), draw(st.booleans())]
    if k == 'sub':
        return ['sub', draw(IDX), draw(st.lists(IDX, max_size=1)),
                draw(st.one_of(st.none(), IDX)), draw(st.booleans())]
    if k == 'unreg':
        return ['unreg', draw(IDX), draw(st.booleans())]
    return ['query', draw(IDX), draw(st.sampled_from(
        ['lookup', 'lookup', 'lookupAll', 'subscriptions', 'ro']))]


@st.composite
def case_strategy(draw):
    bp = draw(reguniv.blueprint(max_regs=5, max_classes=1, max_insts=0,
                                max_ifaces=4, max_prov=2))
    while len(bp['regs']) < 2:
        bp['regs'].append({'bases': [len(bp['regs']) - 1],
                           'flavour': bp['regs'][0]['flavour']})
    while len(bp['regs']) < 3 and draw(st.booleans()):
        bp['regs'].append({'bases': [len(bp['regs']) - 1],
                           'flavour': bp['regs'][-1]['flavour']})
    # deeper chains: most registries sit directly below their predecessor
    for r, spec in enumerate(bp['regs']):
        if r and (not spec['bases'] or draw(st.integers(0, 9)) < 5):
            extra = [b for b in spec['bases'] if b != r - 1][:1]
            spec['bases'] = [r - 1] + (extra if draw(st.booleans()) else [])
    kind = draw(st.sampled_from(['registries', 'registries', 'components']))
    ops = [draw(op_strategy()) for _ in range(draw(st.integers(6, 30)))]
    return {'bp': bp, 'kind': kind, 'ops': ops}


def strategy(cfg):
    return case_strategy()


def run_case(case, cfg, out):
    bp = case['bp']
    if case['kind'] == 'components':
        bp = dict(bp)
        bp['regs'] = [dict(r, flavour='plain') for r in bp['regs']]
    U = Universe(bp)
    out.adjusted += U.adjusted
    M = U.model
    nR = len(U.regs)
    comps = None
    regs = U.regs
    if case['kind'] == 'components':
        from zope.interface.registry import Components
        comps = []
        for r in range(nR):
            comps.append(Components('c%d' % r,
                                    tuple(comps[b] for b in M.bases[r])))
        regs = [c.adapters for c in comps]
        util_regs = [c.utilities for c in comps]
    made = []
    submade = []
    rebased = set()
    counter = [0]
    D = object()

    def depth_below(x, target):
        """length of the shortest base path from x up to target, or None"""
        frontier = {x}
        d = 0
        seen = set()
        while frontier:
            if target in frontier:
                return d
            seen |= frontier
            frontier = {b for f in frontier for b in M.bases[f]} - seen
            d += 1
        return None

    def check_ro(r, stage):
        want = M.ro(r)
        got = [regs.index(x) if x in regs else -1 for x in regs[r].ro]
        out.checks += 1
        if got != want:
            out.fail('ro', '%s: registry %d (%s) ro %r, C3 of the current '
                     'bases is %r (bases %r)' % (stage, r, U.flavours[r], got,
                                                 want, M.bases))
            return False
        if comps is not None:
            gotu = [util_regs.index(x) if x in util_regs else -1
                    for x in util_regs[r].ro]
            if gotu != want:
                out.fail('ro-utilities', '%s: components %d utilities ro %r, '
                         'expected %r' % (stage, r, gotu, want))
                return False
        return True

    for n, op in enumerate(case['ops']):
        kind = op[0]
        if kind == 'rebase':
            deepones = [x for x in range(nR) if any(
                (depth_below(y, x) or 0) >= 2 for y in range(nR))]
            pool = list(range(nR)) + deepones * 3
            r = pool[op[1] % len(pool)]
            below = {x for x in range(nR) if r in M.ro(x)}
            cands = [x for x in range(nR) if x not in below and (
                U.flavours[r] != 'plain' or U.flavours[x] == 'plain')]
            nb = []
            for x in op[2]:
                if cands:
                    c = cands[x % len(cands)]
                    if c not in nb:
                        nb.append(c)
            old = list(M.bases[r])
            ok = False
            for cand in (nb, nb[:2], nb[:1], []):
                M.set_bases(r, cand)
                if all(M.ro(x) is not None for x in range(nR)):
                    ok = True
                    if cand != nb:
                        out.adjusted += 1
                    nb = cand
                    break
            if not ok:
                M.set_bases(r, old)
                continue
            if comps is not None:
                comps[r].__bases__ = tuple(comps[b] for b in nb)
            else:
                regs[r].__bases__ = tuple(regs[b] for b in nb)
            rebased.add(r)
            out.tag('rebase_level_%d' % min(
                max([depth_below(x, r) or 0 for x in range(nR)]), 3))
            if op[3]:
                # invalidating registries recompute eagerly; verifying ones
                # when they next look something up
                for x in sorted(below):
                    if U.flavours[x] == 'plain' and not check_ro(
                            x, 'after rebase of %d' % r):
                        return
        elif kind == 'reg':
            _, r, reqi, p, name, _rn = op
            r = r % nR
            req = [U.ifaces[i % len(U.ifaces)] for i in reqi]
            prov = U.prov(p)
            counter[0] += 1
            v = Val(counter[0])
            regs[r].register(req, prov, name, v)
            M.register(r, req, prov, name, v)
            made.append((r, req, prov, name))
        elif kind == 'unreg':
            if not made:
                continue
            r, req, prov, name = made[op[1] % len(made)]
            regs[r].unregister(req, prov, name)
            M.unregister(r, req, prov, name)
        elif kind == 'sub':
            _, r, reqi, p, _rn = op
            r = r % nR
            req = [U.ifaces[i % len(U.ifaces)] for i in reqi]
            prov = None if p is None else U.prov(p)
            counter[0] += 1
            v = Val(counter[0])
            regs[r].subscribe(req, prov, v)
            M.subscribe(r, req, prov, v)
            submade.append((r, req, prov))
        elif kind == 'query':
            _, which, entry = op
            # prefer registries that sit low in the DAG
            depth = {x: len(M.ro(x)) for x in range(nR)}
            order = sorted(range(nR), key=lambda x: (-depth[x], x))
            pool = order[:2] * 3 + order
            r = pool[which % len(pool)]
            stage = 'op %d: %s from registry %d (%s)' % (n, entry, r,
                                                         U.flavours[r])
            chain = M.ro(r)
            deep = any(x in rebased and (depth_below(r, x) or 0) >= 2
                       for x in chain)
            if entry == 'ro':
                regs[r].lookup([], U.provs[0], '')   # lets a verifying one look
                if not check_ro(r, stage):
                    return
                continue
            if entry == 'lookup':
                if not made:
                    continue
                r0, req, prov, name = made[which % len(made)]
                adm = M.admissible(r, req, prov, name)
                g = regs[r].lookup(req, prov, name, D)
                out.checks += 1
                ok = (g is D) if not adm else any(g is a for a in adm)
                if not ok:
                    out.fail('chain-lookup', '%s: lookup(%r, %s, %r) = %r, '
                             'the current chain %r admits %r (bases %r)' % (
                                 stage, [U.describe(s) for s in req],
                                 prov.__name__, name, g, chain, adm, M.bases))
                    return
                # does the answer depend on the chain?
                if deep and len({id(a[2]) for a in M.applicable(
                        r, req, prov, name)}) >= 1 and r0 != r:
                    out.nontrivial = True
            elif entry == 'lookupAll':
                if not made:
                    continue
                r0, req, prov, name = made[which % len(made)]
                got = dict(regs[r].lookupAll(req, prov))
                out.checks += 1
                names = M.names(r, req, prov)
                if set(got) != names:
                    out.fail('chain-lookupAll', '%s: names %r, model %r '
                             '(chain %r)' % (stage, sorted(got),
                                             sorted(names), chain))
                    return
                for nm, v in got.items():
                    adm = M.admissible(r, req, prov, nm)
                    if not any(v is a for a in adm):
                        out.fail('chain-lookupAll', '%s: [%r] = %r, '
                                 'admissible %r (chain %r)' % (stage, nm, v,
                                                               adm, chain))
                        return
                if deep and r0 != r:
                    out.nontrivial = True
            else:
                if not submade:
                    continue
                r0, req, prov = submade[which % len(submade)]
                got = list(regs[r].subscriptions(req, prov))
                out.checks += 1
                probs = M.check_subscriptions(got, r, req, prov)
                if probs:
                    out.fail('chain-subscriptions', '%s: subscriptions(%r, '
                             '%s) = %r: %s (chain %r)' % (
                                 stage, [U.describe(s) for s in req],
                                 getattr(prov, '__name__', None), got,
                                 '; '.join(probs[:3]), chain))
                    return
                if deep and r0 != r:
                    out.nontrivial = True
            if not check_ro(r, stage + ' (ro after the lookup)'):
                return
    # final sweep: every registry looks something up, then ro must be right
    for r in range(nR):
        regs[r].lookup([], U.provs[0], '')
        if not check_ro(r, 'end'):
            return
