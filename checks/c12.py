"""C12 Interfaces have a total, hash-consistent, process-independent order."""
import hashlib
import itertools
import sys

from hypothesis import strategies as st

RULE = ('(i) curated (name, module) set - empty, equal, prefix-related, '
        'case-different, non-ASCII, equal-key twins built from non-interned '
        'strings, class specifications with equal and distinct keys, None, '
        'foreign objects - all ordered pairs and all triples enumerated; '
        '(ii) Hypothesis-generated collections of interfaces/class '
        'specifications (text names without whitespace) sorted and compared '
        'with the key model, same seed in 6 workers (3 hash seeds x 2 '
        'implementations) whose digests must coincide; non-trivial = pair '
        'with equal names or equal modules or prefix relation or mixed kinds '
        '/ collection containing such a pair; distinct by SHA-1')

EXHAUSTIVE = True
EXTRA = {'digest': '', 'n': 0}
IMPL_MODULE = 'zope.interface.declarations'

NAMES = ['', 'I', 'IA', 'IAB', 'Ia', 'i', 'IB', 'Ié', 'I中', 'zope',
         'I_']
MODULES = ['', 'm', 'ma', 'M', 'm.a', 'é', 'zope.interface.declarations']


def configs(tier, seed):
    out = []
    n = 2500 if tier == 'quick' else 30000
    for impl in ('c', 'py'):
        out.append({'name': impl + '-pairs', 'impl': impl, 'mode': 'enum',
                    'part': 'pairs'})
        out.append({'name': impl + '-triples', 'impl': impl, 'mode': 'enum',
                    'part': 'triples'})
        for hs in (0, 1, 2):
            out.append({'name': '%s-sort-h%d' % (impl, hs), 'impl': impl,
                        'mode': 'hyp', 'n': n, 'hashseed': hs,
                        'seed_group': 'sort', 'part': 'sort'})
    return out


def coverage_extra(tier):
    return {'partitions': {'curated operands: all pairs, all triples':
                           {'exhaustive': True}}}


def cross_check(extras):
    digests = {}
    for cfg, extra in extras:
        if cfg.get('part') == 'sort' and extra:
            digests[cfg['name']] = (extra.get('digest'), extra.get('n'))
    vals = set(digests.values())
    if len(vals) > 1:
        return [('cross-process-sort',
                 'sorted key sequences differ between processes: %r' % digests,
                 None, {'part': 'sort'})]
    return []


# operands are described as data ------------------------------------------
# ['I', name, module, variant]  interface; variant makes distinct objects
#                               with equal keys (strings rebuilt at run time)
# ['S', clsname, clsmodule, variant]  class specification
# ['N'] None   ['F', kind] foreign object

def _curated():
    ops = []
    for n in NAMES:
        for m in MODULES[:5]:
            ops.append(['I', n, m, 0])
    for n, m in (('I', 'm'), ('IA', ''), ('', ''), ('Ié', 'é')):
        ops.append(['I', n, m, 1])     # equal-key twins
    for n in ('I', 'IA', 'Ia', 'Ié'):
        for m in ('', 'm', 'ma'):
            ops.append(['I', n, m, 2])  # the same keys with interned strings
    # names containing a space: with a doc string they are ordinary names;
    # without one Element.__init__ takes the name for the doc string and
    # __name__ becomes None - the *observed* pair is then (None, module), and
    # equality / hash are judged on it (ordering against a str name raises
    # TypeError in both implementations and is not judged) - seed C12e
    for n, m, v, doc in (('I A', 'm', 0, 1), ('I A', 'm', 1, 1),
                         ('I', 'm', 0, 1), ('I B', 'm', 0, 1),
                         ('I A', 'm', 0, 0), ('I B', 'm', 0, 0),
                         ('x y', 'm', 1, 0), ('I A', 'ma', 0, 0),
                         ('I A', '', 2, 0)):
        ops.append(['I', n, m, v, doc])
    for cn, cm, v in (('C', 'm', 0), ('C', 'm', 1), ('D', 'm', 0),
                      ('C', 'ma', 0), ('I', '', 0)):
        ops.append(['S', cn, cm, v])
    ops.append(['N'])
    for k in ('int', 'object', 'class', 'function', 'str', 'anyeq'):
        ops.append(['F', k])
    return ops


def enumerate_cases(cfg):
    ops = _curated()
    if cfg['part'] == 'pairs':
        for a in ops:
            for b in ops:
                yield {'t': 'pair', 'a': a, 'b': b}
    else:
        specs = [o for o in ops if o[0] in 'IS']
        # triples over a sub-sample large enough to contain every relation
        sub = [o for o in specs if o[0] == 'S' or
               (o[1] in ('', 'I', 'IA', 'Ia', 'Ié') and
                o[2] in ('', 'm', 'ma'))]
        for a, b, c in itertools.product(sub, repeat=3):
            yield {'t': 'triple', 'ops': [a, b, c]}


_name = st.text(st.characters(blacklist_categories=('Cs', 'Zs', 'Cc', 'Zl',
                                                    'Zp'),
                              blacklist_characters=' \t\n\r\x0b\x0c'),
                max_size=4)
_small = st.sampled_from(['', 'I', 'IA', 'IB', 'Ia', 'm', 'ma', 'x.y'])


@st.composite
def sort_strategy(draw):
    n = draw(st.integers(2, 9))
    ops = []
    for _ in range(n):
        kind = draw(st.sampled_from('IIIS'))
        nm = draw(st.one_of(_small, _name))
        md = draw(st.one_of(_small, _name))
        if kind == 'S' and not nm.isidentifier():
            nm = 'C' + str(len(nm))
        ops.append([kind, nm, md, draw(st.integers(0, 3))])
    if draw(st.booleans()):
        ops.append(['N'])
    # duplicates of some element (same object twice / equal-key twin)
    if draw(st.booleans()):
        k = draw(st.integers(0, n - 1))
        twin = list(ops[k])
        if draw(st.booleans()) and twin[0] != 'N':
            twin[3] = twin[3] ^ draw(st.sampled_from([1, 2, 3]))
        ops.append(twin)
    return {'t': 'sort', 'ops': ops}


def strategy(cfg):
    return sort_strategy()


# building operands -------------------------------------------------------

class _Builder:
    def __init__(self):
        self.cache = {}

    def build(self, op):
        from zope.interface import Interface
        from zope.interface import implementedBy
        from zope.interface.interface import InterfaceClass
        key = tuple(op)
        if key in self.cache:
            return self.cache[key]
        if op[0] == 'I':
            # rebuild the strings so that equal names are distinct objects
            name = ''.join(list(op[1]))
            mod = ''.join(list(op[2]))
            if len(op) > 3 and op[3] & 2:
                # interned, as names coming from a class statement are;
                # the others stay run-time strings (equal value, other
                # object)
                name = sys.intern(name)
                mod = sys.intern(mod)
            attrs = {'__doc__': 'doc'} if len(op) > 4 and op[4] else {}
            ob = InterfaceClass(name, (Interface,), attrs, __module__=mod)
        elif op[0] == 'S':
            cls = type(op[1], (), {'__module__': op[2]})
            ob = implementedBy(cls)
            self.keep = getattr(self, 'keep', []) + [cls]
        elif op[0] == 'N':
            ob = None
        else:
            ob = {'int': 42, 'object': object(), 'class': _Builder,
                  'function': _curated, 'str': 'I',
                  'anyeq': _AnyEq()}[op[1]]
        self.cache[key] = ob
        return ob


class _AnyEq:
    """a foreign object (no __name__/__module__ of its own on the instance
    ... it has none at all) that defines equality itself, the way unwrapping
    proxies and ANY-style sentinels do: the interface has to leave the
    answer to it (seed C12g)"""
    __slots__ = ()

    def __eq__(self, other):
        return True

    def __ne__(self, other):
        return False

    __hash__ = None


def _key(op):
    if op[0] == 'I':
        if ' ' in op[1] and not (len(op) > 4 and op[4]):
            return (None, op[2])
        return (op[1], op[2])
    if op[0] == 'S':
        name = '%s.%s' % (op[2] or '?', op[1])
        return (name, IMPL_MODULE)
    return None


def _related(ka, kb):
    if ka[0] is None or kb[0] is None:
        return True
    return (ka[0] == kb[0] or ka[1] == kb[1] or ka[0].startswith(kb[0]) or
            kb[0].startswith(ka[0]))


OPS = {
    '<': lambda a, b: a < b, '<=': lambda a, b: a <= b,
    '>': lambda a, b: a > b, '>=': lambda a, b: a >= b,
    '==': lambda a, b: a == b, '!=': lambda a, b: a != b,
}
TUPLE_OPS = OPS


def _try(f, a, b):
    try:
        return f(a, b)
    except TypeError:
        return 'TypeError'


def _pair_case(case, out):
    B = _Builder()
    a_op, b_op = case['a'], case['b']
    a, b = B.build(a_op), B.build(b_op)
    if a_op[0] not in 'IS':
        if b_op[0] not in 'IS':
            return
        # reflected operand order: covered by the mirrored pair, but check
        # that Python's reflection gives consistent answers
        for sym, mirror in (('<', '>'), ('<=', '>='), ('>', '<'),
                            ('>=', '<='), ('==', '=='), ('!=', '!=')):
            out.checks += 1
            r1 = _try(OPS[sym], a, b)
            r2 = _try(OPS[mirror], b, a)
            if a_op[0] == 'F' and a_op[1] in ('class', 'function'):
                continue  # objects with __name__/__module__: not claimed
            if r1 != r2:
                out.fail('reflected', '%r %s %r = %r but %r %s %r = %r' % (
                    a_op, sym, b_op, r1, b_op, mirror, a_op, r2))
        return
    ka = _key(a_op)
    same_object = a is b
    if b_op[0] in 'IS':
        kb = _key(b_op)
        if _related(ka, kb) or a_op[0] != b_op[0]:
            out.nontrivial = True
        mixed_or_spec = 'S' in (a_op[0], b_op[0])
        if (a.__name__, a.__module__) != ka:
            out.fail('observed-key', '%r has (__name__, __module__) %r, '
                     'expected %r' % (a_op, (a.__name__, a.__module__), ka))
        for sym in ('<', '<=', '>', '>='):
            if (ka[0] is None) != (kb[0] is None):
                break   # None against str: not an order, see _curated
            out.checks += 1
            want = TUPLE_OPS[sym](ka, kb)
            got = _try(OPS[sym], a, b)
            if got is not want:
                out.fail('order-' + ('spec' if mixed_or_spec else 'iface'),
                         '%r %s %r = %r, keys %r %r say %r' % (
                             a_op, sym, b_op, got, ka, kb, want))
        if mixed_or_spec:
            want_eq = same_object
        else:
            want_eq = ka == kb
        out.checks += 2
        if (a == b) is not want_eq:
            out.fail('eq', '%r == %r is %r, expected %r' % (a_op, b_op,
                                                            a == b, want_eq))
        if (a != b) is not (not want_eq):
            out.fail('ne', '%r != %r is %r, expected %r' % (
                a_op, b_op, a != b, not want_eq))
        if want_eq and hash(a) != hash(b):
            out.fail('hash', 'equal %r %r hash differently' % (a_op, b_op))
        if not mixed_or_spec and want_eq:
            # usable as dict keys interchangeably
            if {a: 1}.get(b) != 1:
                out.fail('hash', 'equal interfaces not interchangeable as '
                         'dict keys: %r %r' % (a_op, b_op))
    elif b_op[0] == 'N':
        out.nontrivial = True
        want = {'<': True, '<=': True, '>': False, '>=': False, '==': False,
                '!=': True}
        for sym, w in want.items():
            out.checks += 1
            got = _try(OPS[sym], a, None)
            if got is not w:
                out.fail('none-order', '%r %s None = %r, expected %r' % (
                    a_op, sym, got, w))
        for sym, w in (('>', True), ('>=', True), ('<', False),
                       ('<=', False), ('==', False), ('!=', True)):
            got = _try(OPS[sym], None, a)
            if got is not w:
                out.fail('none-order', 'None %s %r = %r, expected %r' % (
                    sym, a_op, got, w))
    else:
        kind = b_op[1]
        if kind in ('class', 'function'):
            # have __name__ and __module__: the statement does not say;
            # only == / != must be negations of each other
            if (a == b) == (a != b):
                out.fail('ne', '%r ==/!= %s inconsistent' % (a_op, kind))
            return
        out.nontrivial = True
        for sym in ('<', '<=', '>', '>='):
            out.checks += 1
            got = _try(OPS[sym], a, b)
            if got != 'TypeError':
                out.fail('foreign-order', '%r %s <%s> = %r, expected '
                         'TypeError' % (a_op, sym, kind, got))
        if kind == 'anyeq':
            # the other operand decides: reflected comparisons agree
            if (a == b) is not True or (a != b) is not False or \
                    (b == a) is not True or (b != a) is not False:
                out.fail('foreign-eq-reflected', '%r vs an object that '
                         'defines equality: == %r != %r' % (a_op, a == b,
                                                            a != b))
        elif (a == b) is not False or (a != b) is not True:
            out.fail('foreign-eq', '%r vs <%s>: == %r != %r' % (
                a_op, kind, a == b, a != b))


def _triple_case(case, out):
    B = _Builder()
    ops = case['ops']
    a, b, c = [B.build(o) for o in ops]
    ka, kb, kc = [_key(o) for o in ops]
    out.checks += 1
    if len({ka, kb, kc}) < 3 or 'S' in (ops[0][0] + ops[1][0] + ops[2][0]):
        out.nontrivial = True
    # transitivity and totality, judged on the objects only
    if a < b and b < c and not a < c:
        out.fail('transitivity', '%r < %r < %r but not a < c' % tuple(ops))
    if a <= b and b <= c and not a <= c:
        out.fail('transitivity', '%r <= %r <= %r but not a <= c' % tuple(ops))
    for x, y, kx, ky, ox, oy in ((a, b, ka, kb, ops[0], ops[1]),
                                 (b, c, kb, kc, ops[1], ops[2])):
        if kx != ky:
            if (x < y) == (y < x):
                out.fail('totality', '%r %r: exactly one of <, > must hold'
                         % (ox, oy))
        if x < y and y < x:
            out.fail('asymmetry', '%r %r' % (ox, oy))
    if a < a:
        out.fail('irreflexive', '%r < itself' % (ops[0],))
    # sorting the three in any order gives the same key sequence
    seqs = set()
    for perm in itertools.permutations([(a, ka), (b, kb), (c, kc)]):
        seqs.add(tuple(k for _, k in sorted(
            perm, key=lambda p: _Wrap(p[0]))))
    if len(seqs) != 1 or next(iter(seqs)) != tuple(sorted([ka, kb, kc])):
        out.fail('sort-triple', '%r sorts as %r' % (ops, seqs))


class _Wrap:
    """sort by the object's own __lt__ only"""
    __slots__ = ('o',)

    def __init__(self, o):
        self.o = o

    def __lt__(self, other):
        return self.o < other.o


def _sort_case(case, out):
    B = _Builder()
    ops = case['ops']
    objs = [B.build(o) for o in ops]
    keys = [_key(o) for o in ops]
    for i in range(len(ops)):
        for j in range(i + 1, len(ops)):
            if keys[i] and keys[j] and (_related(keys[i], keys[j]) or
                                        ops[i][0] != ops[j][0]):
                out.nontrivial = True
    out.checks += 1
    BIG = ('\U0010ffff' * 8, '\U0010ffff' * 8)
    order = sorted(range(len(ops)), key=lambda i: keys[i] or BIG)  # stable
    want = [keys[i] for i in order]
    got_objs = sorted(objs)
    got = []
    for o in got_objs:
        got.append(None if o is None else (o.__name__, o.__module__))
    if got != want:
        out.fail('sorted', 'sorted(%r) gives keys %r, model %r' % (
            ops, got, want))
        return
    # stability for equal keys: the identical objects in input order
    want_ids = [id(objs[i]) for i in order]
    if [id(o) for o in got_objs] != want_ids:
        out.fail('sorted-stability', 'equal-key elements reordered: %r' % ops)
    # min/max and reversed sort agree
    rs = sorted(objs, reverse=True)
    rk = [None if o is None else (o.__name__, o.__module__) for o in rs]
    if sorted([k or BIG for k in rk]) != [k or BIG for k in want]:
        out.fail('sorted-reverse', '%r' % ops)
    if rk and rk[0] != want[-1]:
        out.fail('sorted-reverse', 'max differs: %r' % ops)
    # hash consistency inside the collection
    for i in range(len(ops)):
        for j in range(len(ops)):
            a, b = objs[i], objs[j]
            if a is None or b is None:
                continue
            if a == b and hash(a) != hash(b):
                out.fail('hash', '%r %r' % (ops[i], ops[j]))
            if ops[i][0] == 'I' and ops[j][0] == 'I':
                if (a == b) != (keys[i] == keys[j]):
                    out.fail('eq', '%r == %r is %r' % (ops[i], ops[j],
                                                        a == b))
    EXTRA['digest'] = hashlib.sha1(
        (EXTRA['digest'] + repr(got)).encode('utf-8',
                                             'backslashreplace')).hexdigest()
    EXTRA['n'] += 1


def run_case(case, cfg, out):
    if case['t'] == 'pair':
        _pair_case(case, out)
    elif case['t'] == 'triple':
        _triple_case(case, out)
    else:
        _sort_case(case, out)
