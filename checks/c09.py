"""C09 Registration bookkeeping reflects exactly the net effect of the
history."""
from hypothesis import strategies as st

from vlib import reguniv
from vlib.reguniv import IDX
from vlib.reguniv import NAMES
from vlib.reguniv import Universe
from vlib.reguniv import Val

RULE = ('single registry of either flavour; histories (<=40) of register '
        '(new value, value None, the same object again, an equal-but-distinct '
        'object), unregister (no value / identical / equal-distinct / other '
        'value), subscribe, unsubscribe, rebuild(); arity 0-2 so that nested '
        'containers empty while siblings remain; oracle = dict/list model '
        'for registered / allRegistrations / allSubscriptions / subscribed, '
        'and lookups + subscriptions on the registry, on a fresh registry fed '
        'with allRegistrations()+allSubscriptions() and after rebuild() '
        'against the reference model; non-trivial = history with an overwrite '
        'followed by unregister, or removal of the last entry of a nested '
        'container with a live sibling, or a rebuild after >=3 mutations; '
        'distinct by SHA-1')


# thorough tier: coverage-guided campaigns on top of the random ones
ATHERIS = [{'impl': 'py', 'n': 30000, 'name': 'py-atheris'},
           {'impl': 'c', 'n': 30000, 'name': 'c-atheris'}]

def configs(tier, seed):
    n = 900 if tier == 'quick' else 15000
    return [{'name': impl + '-book', 'impl': impl, 'mode': 'hyp', 'n': n}
            for impl in ('c', 'py')]


@st.composite
def op_strategy(draw):
    k = draw(st.sampled_from(
        ['reg'] * 5 + ['rereg'] * 4 + ['unreg'] * 5 + ['sub'] * 3 +
        ['resub'] * 2 + ['unsub'] * 3 + ['rebuild', 'replay', 'check',
                                         'recreate']))
    if k == 'reg':
        return ['reg', draw(reguniv.reg_key_biased(2)), draw(IDX),
                draw(st.sampled_from(NAMES + [''])), draw(st.integers(0, 2))]
    if k == 'rereg':
        return ['rereg', draw(IDX),
                draw(st.sampled_from(['same', 'equal', 'new', 'none',
                                      'sibling', 'sibling']))]
    if k == 'unreg':
        return ['unreg', draw(IDX),
                draw(st.sampled_from(['novalue', 'same', 'equal', 'other',
                                      'novalue', 'same']))]
    if k == 'sub':
        return ['sub', draw(reguniv.reg_key_biased(2)),
                draw(st.one_of(st.none(), IDX, IDX)), draw(st.integers(0, 2))]
    if k == 'resub':
        return ['resub', draw(IDX), draw(st.sampled_from(['same', 'equal',
                                                          'new']))]
    if k == 'unsub':
        return ['unsub', draw(IDX), draw(st.sampled_from(
            ['all', 'same', 'equal', 'other']))]
    return [k]


@st.composite
def case_strategy(draw):
    bp = draw(reguniv.blueprint(max_regs=1, max_classes=2, max_insts=1))
    ops = [draw(op_strategy()) for _ in range(draw(st.integers(6, 40)))]
    return {'bp': bp, 'ops': ops}


def strategy(cfg):
    return case_strategy()


def run_case(case, cfg, out):
    U = Universe(case['bp'])
    out.adjusted += U.adjusted
    M = U.model
    reg = U.regs[0]
    keys = []        # (req, prov, name) ever registered
    skeys = []       # (req, prov, value) ever subscribed
    counter = [0]
    mutations = [0]
    overwritten = set()
    nt = [False]

    def newval(keyn):
        counter[0] += 1
        return Val(counter[0], ('k', keyn))

    def rkey(req, prov, name):
        return (tuple(M.root if r is None else r for r in req), prov, name)

    def compare(registry, what):
        """registry must agree with the model on every query"""
        out.checks += 1
        # registered()
        for req, prov, name in keys:
            want = M.registered(0, req, prov, name)
            got = registry.registered(req, prov, name)
            if got is not want:
                out.fail('registered', '%s: registered(%r, %s, %r) is %r, '
                         'model %r' % (what, [U.describe(s) for s in req],
                                       prov.__name__, name, got, want))
                return False
        # allRegistrations: exact set, identity of values
        got = {}
        for req, prov, name, value in registry.allRegistrations():
            k = (tuple(req), prov, name)
            if k in got:
                out.fail('allRegistrations', '%s: duplicate %r' % (what, k))
                return False
            got[k] = value
        want = dict(M.ad[0])
        if set(got) != set(want) or any(got[k] is not want[k] for k in want):
            out.fail('allRegistrations', '%s: lists %r, model %r' % (
                what, sorted(map(repr, got.items())),
                sorted(map(repr, want.items()))))
            return False
        # allSubscriptions: exact multiset, per-key order
        def norm(lst):
            d = {}
            for req, prov, v in lst:
                d.setdefault((tuple(req), prov), []).append(id(v))
            return d
        gs = norm(registry.allSubscriptions())
        ws = norm((e[0], e[1], e[2]) for e in M.subs[0])
        if gs != ws:
            out.fail('allSubscriptions', '%s: %r != model %r' % (
                what, list(registry.allSubscriptions()), M.subs[0]))
            return False
        for req, prov, v in skeys:
            for probe in (v, Val('p', v.key)):
                w = M.subscribed(0, req, prov, probe)
                g = registry.subscribed(req, prov, probe)
                if (g is not None) != w:
                    out.fail('subscribed', '%s: subscribed(%r) = %r, model '
                             '%r' % (what, probe, g, w))
                    return False
        # lookups: every registered key looked up exactly and through more
        # specific specifications
        DEFAULT = object()
        for req, prov, name in keys[-12:]:
            variants = [[M.root if r is None else r for r in req]]
            more = []
            for r in req:
                pool = U.descendants_of(r)
                more.append(pool[-1])
            variants.append(more)
            for required in variants:
                for provided in {prov, U.prov_ancestors(prov)[0]}:
                    adm = M.admissible(0, required, provided, name)
                    g = registry.lookup(required, provided, name, DEFAULT)
                    ok = (g is DEFAULT) if not adm else any(g is a
                                                            for a in adm)
                    if not ok:
                        out.fail('lookup', '%s: lookup(%r, %s, %r) = %r, '
                                 'admissible %r' % (
                                     what, [U.describe(s) for s in required],
                                     provided.__name__, name, g, adm))
                        return False
                    wantnames = M.names(0, required, provided)
                    gotnames = set(registry.names(required, provided))
                    if gotnames != wantnames:
                        out.fail('names', '%s: names %r, model %r' % (
                            what, gotnames, wantnames))
                        return False
        for req, prov, v in skeys[-8:]:
            more = [U.descendants_of(r)[-1] for r in req]
            for required in ([M.root if r is None else r for r in req], more):
                probs = M.check_subscriptions(
                    list(registry.subscriptions(required, prov)), 0, required,
                    prov)
                if probs:
                    out.fail('subscriptions', '%s: subscriptions(%r, %s): %s'
                             % (what, [U.describe(s) for s in required],
                                getattr(prov, '__name__', None),
                                '; '.join(probs[:3])))
                    return False
        return True

    def sibling_alive(req, prov, name):
        """does a registration sharing a nested container survive?"""
        k0 = rkey(req, prov, name)
        for k in M.ad[0]:
            if k != k0 and len(k[0]) == len(k0[0]) and (
                    k[0] == k0[0] or k[0][:1] == k0[0][:1]):
                return True
        return False

    for n, op in enumerate(case['ops']):
        kind = op[0]
        if kind == 'reg':
            _, reqrefs, p, name, keyn = op
            req = [U.spec(ref) for ref in reqrefs]
            prov = U.prov(p)
            v = newval(keyn)
            if M.registered(0, req, prov, name) is not None:
                overwritten.add(rkey(req, prov, name))
            reg.register(req, prov, name, v)
            M.register(0, req, prov, name, v)
            keys.append((req, prov, name))
            mutations[0] += 1
        elif kind == 'rereg':
            if not keys:
                continue
            req, prov, name = keys[op[1] % len(keys)]
            cur = M.registered(0, req, prov, name)
            how = op[2]
            if how == 'sibling':
                # same required key, other provided or name
                if n % 2 and len(U.provs) > 1:
                    prov = U.provs[(U.provs.index(prov) + 1) % len(U.provs)]
                else:
                    name = NAMES[(NAMES.index(name) + 1) % len(NAMES)]
                v = newval(0)
                keys.append((req, prov, name))
            elif how == 'same':
                v = cur if cur is not None else newval(0)
            elif how == 'equal':
                v = Val('eq%d' % n, cur.key) if cur is not None else newval(0)
            elif how == 'none':
                v = None
            else:
                v = newval(0)
            if cur is not None and v is not cur:
                overwritten.add(rkey(req, prov, name))
            if v is None and cur is not None and sibling_alive(req, prov,
                                                               name):
                nt[0] = True
            reg.register(req, prov, name, v)
            M.register(0, req, prov, name, v)
            mutations[0] += 1
            out.tag('register_' + how)
        elif kind == 'unreg':
            if not keys:
                continue
            req, prov, name = keys[op[1] % len(keys)]
            cur = M.registered(0, req, prov, name)
            how = op[2]
            if how == 'novalue':
                v = None
            elif how == 'same':
                v = cur
            elif how == 'equal':
                v = Val('eq%d' % n, cur.key) if cur is not None else Val('x')
            else:
                v = Val('other%d' % n)
            removes = cur is not None and (v is None or v is cur)
            if removes and rkey(req, prov, name) in overwritten:
                nt[0] = True
            if removes and sibling_alive(req, prov, name):
                nt[0] = True
            if v is None:
                reg.unregister(req, prov, name)
            else:
                reg.unregister(req, prov, name, v)
            M.unregister(0, req, prov, name, v)
            mutations[0] += 1
            out.tag('unregister_' + how)
        elif kind == 'sub':
            _, reqrefs, p, keyn = op
            req = [U.spec(ref) for ref in reqrefs]
            prov = None if p is None else U.prov(p)
            v = newval(keyn)
            reg.subscribe(req, prov, v)
            M.subscribe(0, req, prov, v)
            skeys.append((req, prov, v))
            mutations[0] += 1
        elif kind == 'resub':
            if not skeys:
                continue
            req, prov, v0 = skeys[op[1] % len(skeys)]
            v = {'same': v0, 'equal': Val('eq%d' % n, v0.key),
                 'new': newval(0)}[op[2]]
            reg.subscribe(req, prov, v)
            M.subscribe(0, req, prov, v)
            skeys.append((req, prov, v))
            mutations[0] += 1
        elif kind == 'unsub':
            if not skeys:
                continue
            req, prov, v0 = skeys[op[1] % len(skeys)]
            how = op[2]
            if how == 'all':
                reg.unsubscribe(req, prov)
                M.unsubscribe(0, req, prov)
            else:
                v = {'same': v0, 'equal': Val('eq%d' % n, v0.key),
                     'other': Val('other%d' % n)}[how]
                reg.unsubscribe(req, prov, v)
                M.unsubscribe(0, req, prov, v)
            mutations[0] += 1
            out.tag('unsubscribe_' + how)
        elif kind == 'rebuild':
            if mutations[0] >= 3:
                nt[0] = True
            reg.rebuild()
            out.tag('rebuild')
        elif kind == 'recreate':
            # what a persistent registry's __setstate__ does: a new lookup
            # object over the stored registration data
            reg._createLookup()
            reg.__bases__ = reg.__bases__
            reg._v_lookup.changed(reg)
            out.tag('recreate')
        elif kind == 'replay':
            fresh = type(reg)()
            for args in reg.allRegistrations():
                fresh.register(*args)
            for args in reg.allSubscriptions():
                fresh.subscribe(*args)
            if not compare(fresh, 'op %d: replay into a fresh registry' % n):
                return
            out.tag('replay')
        if kind in ('rebuild', 'check', 'replay', 'recreate') or n % 3 == 0:
            if not compare(reg, 'after op %d %r' % (n, op)):
                return
    if not compare(reg, 'end'):
        return
    reg.rebuild()
    if not compare(reg, 'end, after rebuild()'):
        return
    if nt[0]:
        out.nontrivial = True
