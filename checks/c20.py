"""C20 Declaration algebra: iteration, membership, + and - obey ordered-set
laws."""
from hypothesis import strategies as st

from vlib import models
from vlib.core import make_class
from vlib.core import uniq

RULE = ('interface DAGs (2-7), classes with declarations, declarations built '
        'from arbitrarily nested tuples/lists/Declaration objects/class '
        'specifications with duplicates; every generated pair (A, B) with B a '
        'declaration, a class specification or a single interface; oracle = '
        'ordered-list model over the model\'s extends relation; non-trivial = '
        'some member of B extends or is extended by a (different) member of '
        'A; distinct by SHA-1 of the case')


# thorough tier: coverage-guided campaigns on top of the random ones
ATHERIS = [{'impl': 'py', 'n': 60000, 'name': 'py-atheris'},
           {'impl': 'c', 'n': 60000, 'name': 'c-atheris'}]

def configs(tier, seed):
    n = 2500 if tier == 'quick' else 40000
    return [{'name': impl + '-algebra', 'impl': impl, 'mode': 'hyp', 'n': n}
            for impl in ('c', 'py')]


@st.composite
def term(draw, nif, ncls, depth):
    kinds = ['i', 'i', 'i', 'i']
    if ncls:
        kinds.append('c')
    if depth < 3:
        kinds += ['t', 'l', 'd']
    k = draw(st.sampled_from(kinds))
    if k == 'i':
        return ['i', draw(st.integers(0, nif - 1))]
    if k == 'c':
        return ['c', draw(st.integers(0, ncls - 1))]
    n = draw(st.integers(0, 3))
    return [k, [draw(term(nif, ncls, depth + 1)) for _ in range(n)]]


@st.composite
def case_strategy(draw):
    nif = draw(st.integers(2, 7))
    ibases = []
    for i in range(nif):
        k = draw(st.integers(0, min(2, i)))
        ibases.append(draw(st.lists(st.integers(0, i - 1), min_size=k,
                                    max_size=k, unique=True)) if k else [])
    ncls = draw(st.integers(0, 3))
    classes = []
    for c in range(ncls):
        classes.append({
            'bases': draw(st.lists(st.integers(0, c - 1), max_size=2,
                                   unique=True)) if c else [],
            'declared': draw(st.lists(st.integers(0, nif - 1), max_size=3)),
            'only': draw(st.integers(0, 5)) == 0,
            # the *only* form given a declaration object first (the
            # documented idiom implementer_only(implementedBy(Base) - IA,
            # IC)): the object is kept as one base of the class
            # specification (seed C20g).  ['decl', [i...]] or
            # ['minus', class, i]
            'only_decl': draw(st.one_of(
                st.none(), st.none(),
                st.tuples(st.just('decl'), st.lists(
                    st.integers(0, nif - 1), max_size=3)).map(list),
                st.tuples(st.just('minus'), st.integers(0, 3),
                          st.integers(0, nif - 1)).map(list)))})
    nd = draw(st.integers(2, 4))
    decls = [[draw(term(nif, ncls, 0))
              for _ in range(draw(st.integers(0, 4)))] for _ in range(nd)]
    ops = []
    for _ in range(draw(st.integers(1, 6))):
        a = draw(st.integers(0, nd + ncls))
        bkind = draw(st.sampled_from(['decl', 'decl', 'iface']))
        b = draw(st.integers(0, (nd + ncls + 1 if bkind == 'decl'
                                 else nif) - 1))
        ops.append([draw(st.sampled_from(['add', 'sub', 'add', 'sub',
                                          'iter'])), a, bkind, b])
    return {'ibases': ibases, 'classes': classes, 'decls': decls,
            'ops': ops}


def strategy(cfg):
    return case_strategy()


def _dedupe(seq):
    out = []
    for x in seq:
        if x not in out:
            out.append(x)
    return out


def run_case(case, cfg, out):
    from zope.interface import Interface
    from zope.interface import classImplements
    from zope.interface import classImplementsOnly
    from zope.interface import implementedBy
    from zope.interface.declarations import Declaration
    from zope.interface.interface import InterfaceClass

    ibases = case['ibases']
    nif = len(ibases)
    tag = uniq('c20_')
    ifaces = []
    for i, bs in enumerate(ibases):
        ifaces.append(InterfaceClass(
            '%s_%d' % (tag, i), tuple(ifaces[b] for b in bs) or (Interface,),
            {}, __module__='verif.c20'))
    iidx = {id(x): i for i, x in enumerate(ifaces)}
    memo = {}

    def ext(i, j):
        return j in models.reach(ibases, i, memo)

    # --- classes -----------------------------------------------------------
    classes = []
    spec_iter = []      # model: iteration order of implementedBy(cls)
    for c, spec in enumerate(case['classes']):
        cls, kept = make_class('K%d' % c,
                               [classes[b] for b in spec['bases']])
        cbases = spec['bases'][:kept]
        if kept != len(spec['bases']):
            out.adjusted += 1
        inherited = _dedupe([x for b in cbases for x in spec_iter[b]])
        od = spec.get('only_decl')
        if od is not None and (od[0] == 'decl' or c > 0):
            if od[0] == 'decl':
                first = Declaration(*[ifaces[i] for i in od[1]])
                mfirst = _dedupe(od[1])
            else:
                b = od[1] % c
                first = implementedBy(classes[b]) - ifaces[od[2]]
                mfirst = [x for x in spec_iter[b] if not ext(x, od[2])]
            classImplementsOnly(cls, first,
                                *[ifaces[i] for i in spec['declared']])
            declared = _dedupe(mfirst + spec['declared'])
            inherited = []
            out.tag('only_with_declaration_object')
        elif spec['only']:
            classImplementsOnly(cls, *[ifaces[i] for i in spec['declared']])
            declared = _dedupe(spec['declared'])
            inherited = []
        else:
            classImplements(cls, *[ifaces[i] for i in spec['declared']])
            # documented: what the class already implements through
            # inheritance is ignored
            declared = _dedupe([
                i for i in spec['declared']
                if not any(ext(h, i) for h in inherited)])
        classes.append(cls)
        spec_iter.append(_dedupe(declared + inherited))

    # --- declarations ------------------------------------------------------
    def build(t):
        """-> (real argument, model: list of atoms ('i', k) / ('c', k))"""
        k, v = t
        if k == 'i':
            return ifaces[v], [('i', v)]
        if k == 'c':
            return implementedBy(classes[v]), [('c', v)]
        parts = [build(x) for x in v]
        atoms = [a for _, m in parts for a in m]
        reals = [r for r, _ in parts]
        if k == 't':
            return tuple(reals), atoms
        if k == 'l':
            return list(reals), atoms
        # a Declaration object passed as an argument is expanded into its
        # interfaces
        d = Declaration(*reals)
        return d, [('i', i) for i in model_iter(atoms)]

    def model_iter(atoms):
        seq = []
        for kind, v in atoms:
            seq.extend([v] if kind == 'i' else spec_iter[v])
        return _dedupe(seq)

    decl_objs = []
    decl_iter = []
    for terms in case['decls']:
        parts = [build(t) for t in terms]
        d = Declaration(*[r for r, _ in parts])
        atoms = [a for _, m in parts for a in m]
        decl_objs.append(d)
        decl_iter.append(model_iter(atoms))
    for c, cls in enumerate(classes):
        decl_objs.append(implementedBy(cls))
        decl_iter.append(spec_iter[c])
    # the shared empty declaration (what directlyProvidedBy() returns for an
    # object without direct declarations) is an operand like any other
    # (seed C20h)
    from zope.interface.declarations import _empty
    decl_objs.append(_empty)
    decl_iter.append([])

    def real_iter(d):
        return [iidx.get(id(x), -1) for x in d]

    def snapshot(d):
        return (real_iter(d), tuple(id(b) for b in d.__bases__),
                tuple(id(s) for s in d.__sro__))

    def check_decl(d, want, what):
        out.checks += 1
        got = real_iter(d)
        if got != want:
            out.fail('iteration', '%s iterates %r, model %r (case %r)' % (
                what, got, want, case))
            return False
        for i in range(nif):
            if (ifaces[i] in d) != (i in want):
                out.fail('contains', '%s: iface %d in -> %r, model %r' % (
                    what, i, ifaces[i] in d, i in want))
                return False
        flat = [iidx.get(id(x), 'root' if x is Interface else -1)
                for x in d.flattened()]
        closure = set()
        for i in want:
            closure |= models.reach(ibases, i, memo)
        nonroot = [x for x in flat if x != 'root']
        if set(nonroot) != closure or len(nonroot) != len(closure) or \
                -1 in flat:
            out.fail('flattened-set', '%s flattened %r, closure %r' % (
                what, flat, sorted(closure)))
            return False
        if want and (not flat or flat[-1] != 'root'):
            out.fail('flattened-root', '%s flattened %r' % (what, flat))
            return False
        pos = {x: k for k, x in enumerate(nonroot)}
        for x in nonroot:
            for b in ibases[x]:
                if pos[b] < pos[x]:
                    out.fail('flattened-order', '%s: %d before %d which '
                             'extends it (%r)' % (what, b, x, flat))
                    return False
        if list(d.flattened()) != list(d.__iro__):
            out.fail('flattened-iro', what)
            return False
        return True

    for k, d in enumerate(decl_objs):
        if not check_decl(d, decl_iter[k], 'operand %d' % k):
            return

    results = []        # (result of + / -, what it iterated, description)
    for opi, (op, a, bkind, b) in enumerate(case['ops']):
        A = decl_objs[a % len(decl_objs)]
        ma = decl_iter[a % len(decl_objs)]
        if bkind == 'decl':
            B = decl_objs[b % len(decl_objs)]
            mb = decl_iter[b % len(decl_objs)]
        else:
            B = ifaces[b % nif]
            mb = [b % nif]
        if any((ext(x, y) or ext(y, x)) and x != y for x in ma for y in mb):
            out.nontrivial = True
        before = (snapshot(A), snapshot(B) if bkind == 'decl' else None)
        what = 'op %d: %r %s %r' % (opi, ma, op, mb)
        if op == 'iter':
            check_decl(A, ma, what)
        elif op == 'sub':
            R = A - B
            want = [x for x in ma if not any(ext(x, y) for y in mb)]
            if not check_decl(R, want, what):
                return
            out.tag('sub')
        elif op == 'add':
            R = A + B
            got = real_iter(R)
            out.checks += 1
            new = [y for y in _dedupe(mb) if y not in ma]
            wantset = ma + new
            if sorted(got) != sorted(wantset) or len(got) != len(set(got)):
                out.fail('add-members', '%s = %r, members should be %r' % (
                    what, got, wantset))
                return
            if [x for x in got if x in ma] != ma:
                out.fail('add-order-of-a', '%s = %r: order of A changed' % (
                    what, got))
                return
            if ma:
                first_a = min(got.index(x) for x in ma)
                last_a = max(got.index(x) for x in ma)
            else:
                first_a, last_a = len(got), -1
            front = []
            back = []
            for y in new:
                ext_a = any(ext(y, x) and y != x for x in ma)
                ext_new = any(ext(y, x) and y != x for x in new)
                p = got.index(y)
                if ext_a:
                    if p > first_a:
                        out.fail('add-extender-not-in-front',
                                 '%s = %r: %d extends a member of A but is '
                                 'not in front' % (what, got, y))
                        return
                    front.append(y)
                elif not ext_new:
                    if p < last_a:
                        out.fail('add-unrelated-not-at-end',
                                 '%s = %r: %d extends nothing in A but is '
                                 'not at the end' % (what, got, y))
                        return
                    back.append(y)
                else:
                    # extends only another new member of B: the statement
                    # does not say where it goes (the code puts it in front
                    # when the member it extends was already appended);
                    # it must merely not split A
                    if first_a < p < last_a:
                        out.fail('add-new-inside-a', '%s = %r' % (what, got))
                        return
            for grp in (front, back):
                if [x for x in got if x in grp] != grp:
                    out.fail('add-order-of-b', '%s = %r: relative order of '
                             'B\'s new members %r changed' % (what, got, grp))
                    return
            if not check_decl(R, got, what + ' (result)'):
                return
            out.tag('add')
        after = (snapshot(A), snapshot(B) if bkind == 'decl' else None)
        if before != after:
            out.fail('operand-modified', '%s modified an operand' % what)
            return
        if op in ('add', 'sub'):
            results.append((R, real_iter(R), what))

    # A sum or difference lists the interfaces its operands had when it was
    # computed: declaring one more interface for every class afterwards
    # (which changes the class specifications that were operands) must not
    # change what an earlier result iterates - a result that is, or hangs
    # on, its operand would (seed C20i: `A + B` returning A itself when B
    # adds nothing).
    if classes and results:
        extra = InterfaceClass('%s_late' % tag, (Interface,), {},
                               __module__='verif.c20')
        for cls in classes:
            classImplements(cls, extra)
        for R, got, what in results:
            out.checks += 1
            now = real_iter(R)
            if now != got:
                out.fail('result-follows-operand',
                         '%s iterated %r; after one more interface was '
                         'declared for the operand classes it iterates %r'
                         % (what, got, now))
                return
        out.tag('late_declaration')
