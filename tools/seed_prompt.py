#!/venv/bin/python
"""Prepare an independent sub-agent's task for a seeded change.

    tools/seed_prompt.py C05e ["optional nudge about WHERE to look"]

Creates a scratch worktree /tmp/wt/<id> of /repo's HEAD, installs the helper
scripts to /tmp/wtools and writes /tmp/seedprompts/<id>.txt.  The prompt
contains only the property's text and the worktree - nothing from /verif.
Afterwards: tools/confirm_seed.py <id>; git -C /repo worktree remove --force
/tmp/wt/<id>; tools/mutants.py run --only seed_<id>.
"""
import json
import os
import shutil
import subprocess
import sys

VERIF = os.path.dirname(os.path.dirname(os.path.abspath(__file__)))

T = """You are testing how good a verification harness is at catching regressions in the Python library zope.interface (Python object interfaces, adapter/utility registries, optional C accelerator).  Your job: write ONE realistic-looking but WRONG change to the library that breaks the property below, while the library still compiles and its existing test suite still passes.

## The property that your change must break

Title: {title}

Statement: {statement}

Quantified over: {quant}

## Where to work

* Your own scratch git worktree of the repository: {wt}   (library source: {wt}/src/zope/interface/, C accelerator: _zope_interface_coptimizations.c, tests: {wt}/src/zope/interface/tests/).  Work ONLY there.  Do not read, write or run anything under /repo or /verif; do not look for other people's notes.
* Helpers (Python 3.12, no network, no pytest plugins beyond what is installed):
    /tmp/wtools/wtpy {wt} script.py [args]      run a script against YOUR worktree (set PURE_PYTHON=1 for the pure-Python implementation, PURE_PYTHON=0 for the C accelerator)
    /tmp/wtools/wtbuild {wt}                     recompile the C accelerator in place (needed once at the start, and after every edit of the .c file)
    /tmp/wtools/wttest {wt}                      run the repository's own test suite in both modes.  Baseline on the unmodified tree, in BOTH modes: "12 failed, 1350 passed, 7 skipped" (the 12 failures are test_ro.Test_c3_ro tests that need the missing package zope.testing; they fail before and after).  With your change the result must be exactly the same in both modes.
* First run wtbuild and wttest on the unmodified worktree to see the baseline.

## What kind of change

* It must change library code under src/zope/interface/ (Python and/or C), not tests, and be small (a few lines), looking like a plausible refactoring, optimisation or "simplification" a contributor could submit.
* It must NOT be exposed by ordinary, first-thing-you-try usage.  It should need something specific to manifest: a multi-step sequence of operations, an unusual but legitimate input shape, a particular interleaving or re-entrant callback, a fault at a particular point, or two cooperating edits that each look fine alone.  Say precisely what it needs.
* It must really violate the property as stated (observable through the public API), not merely change an internal detail.
* Be original: read the relevant code first and pick a less obvious spot.  {nudge}

## Deliverables, in the directory /tmp/seed/{sid}/ (create it)

1. patch.diff   - `git -C {wt} diff` of your change against the worktree's HEAD (must apply with `git apply` to a clean checkout of the same commit).
2. demo.py      - a small self-contained program (run through wtpy) that exits 0 printing "ok" on the unmodified tree and fails (assertion / non-zero exit) with your change, demonstrating the property violation.  It must behave like that in every implementation mode your change affects; say which (PURE_PYTHON=0, =1 or both).
3. meta.json    - {{"property": "{pid}", "variant": "{var}", "summary": "...what you changed and why it is wrong...", "needs": "...what exactly is needed for it to manifest...", "implementations_affected": "c|py|both", "how_to_run": "...", "ran": ["...what you ran and what it printed..."]}}

Before you finish: verify yourself that (a) wttest with the change gives the baseline line in both modes, (b) demo.py fails with the change and prints ok without it (to compare, save your change with `git diff > /tmp/seed/{sid}/patch.diff`, `git checkout -- .`, and later `git apply` it again - never use `git stash`: the stash is shared with other worktrees of this repository; rebuild with wtbuild when the .c file changed), (c) patch.diff applies to a clean tree.  Then leave the worktree CLEAN (git -C {wt} checkout -- . ; remove untracked files you created there).  Reply with a three-line summary only.
"""


def main():
    sid = sys.argv[1]
    nudge = sys.argv[2] if len(sys.argv) > 2 else ''
    pid, var = sid[:3], sid[3:]
    props = {}
    for line in open(os.path.join(VERIF, 'properties.jsonl')):
        p = json.loads(line)
        props[p['id']] = p
    p = props[pid]
    if not os.path.isdir('/tmp/wtools'):
        shutil.copytree(os.path.join(VERIF, 'tools', 'wtools'), '/tmp/wtools')
    os.makedirs('/tmp/seedprompts', exist_ok=True)
    os.makedirs('/tmp/seed', exist_ok=True)
    wt = '/tmp/wt/' + sid
    subprocess.run(['git', '-C', '/repo', 'worktree', 'remove', '--force',
                    wt], capture_output=True)
    r = subprocess.run(['git', '-C', '/repo', 'worktree', 'add', '-q',
                        '--detach', wt, 'HEAD'], capture_output=True,
                       text=True)
    if r.returncode:
        sys.exit(r.stderr)
    path = '/tmp/seedprompts/%s.txt' % sid
    with open(path, 'w') as f:
        f.write(T.format(title=p['title'], statement=p['statement'],
                         quant=p['quantifier']['text'], wt=wt, sid=sid,
                         pid=pid, var=var, nudge=nudge))
    print(path)


if __name__ == '__main__':
    main()
