#!/venv/bin/python
"""Regenerate MANIFEST.json from the table below and the check modules that
exist.  Properties without a check module are listed under not_applicable
with the reason given here (kept current by hand)."""
import json
import os

VERIF = os.path.dirname(os.path.dirname(os.path.abspath(__file__)))

# id -> (technique, level text, level note, design ref)
CHECKS = {
 'C01': ('Hypothesis-generated declaration histories vs. a reference declaration model (band oracle), checked after every step, both implementations',
         'Generated-input search: random class/interface DAGs and declaration histories; every query entry point compared with an independent model after every step. Exploration, not proof.',
         'Trusts the DeclModel reading of the documentation (redundant declarations may be elided => band) and CPython class semantics.', '3/C01'),
 'C02': ('Hypothesis-generated rebasing histories over mixed specification graphs vs. DFS reachability and a freshly built twin graph',
         'Generated-input search with two oracles (reachability model; never-mutated twin). Exploration.',
         'Trusts the DFS model; same-named twin interfaces excluded (equal interfaces are the same interface).', '3/C02'),
 'C03': ('Hypothesis-generated and exhaustively enumerated ordered DAGs + rebasing histories vs. textbook C3 and CPython type.mro() of a mirrored hierarchy; strict/legacy processes',
         'Generated-input search plus complete enumeration of all ordered DAGs up to 4 (quick) / 5 (thorough) non-root nodes; two independent oracles that must also agree with each other. Exploration with an exhaustive finite partition.',
         'Trusts CPython\'s MRO and the textbook C3; the root Interface is mirrored as `object`; hierarchies where an explicitly listed root makes the raw and the implicit-root reading differ are only checked for validity.', '3/C03'),
 'C04': ('Hypothesis-generated registries/hierarchies/keys vs. admissible-set reference model of lookup',
         'Generated-input search against a lexicographic most-specific model written from the statement; lookup keys derived from registrations so that >=2 applicable registrations are common. Exploration.',
         'Ties between unrelated provided interfaces are accepted by membership.', '3/C04'),
 'C05': ('Hypothesis-generated histories of lookups and mutations; every key ever queried is re-queried after each mutation on the real chain and on a never-queried twin replay',
         'Differential (metamorphic) search: warm registry vs. cold twin fed the same mutation history. Exploration.',
         'Trusts that a registry that never served a lookup has no cache state.', '3/C05'),
 'C06': ('Hypothesis-generated registry DAG histories (rebasing at any level, both flavours) vs. RegModel over the model\'s C3 chain',
         'Generated-input search against a reference model of the current chain. Exploration.',
         'Registry DAGs are kept C3-consistent by construction.', '3/C06'),
 'C07': ('Hypothesis-generated subscribe/unsubscribe histories vs. multiset+order model',
         'Generated-input search against a list model (exact multiset by identity, documented order along the three named axes). Exploration.',
         'Order between different provided interfaces under one required key is not demanded.', '3/C07'),
 'C08': ('Hypothesis-generated registry states, keys and warm-up call lists; metamorphic identities between entry points',
         'Metamorphic search: every entry point compared with lookup()/subscriptions() on the same live registry in generated cache states. Exploration.',
         'lookup() and subscriptions() themselves are judged by C04/C07.', '3/C08'),
 'C09': ('Hypothesis-generated register/unregister/subscribe/unsubscribe/rebuild histories vs. dict/list model, replay-into-fresh-registry and rebuild() round trips',
         'Generated-input search against a dict/list model plus round-trip oracles. Exploration.',
         'Single registry; ambiguous lookups compared by membership.', '3/C09'),
 'C10': ('differential fuzzing: the same Hypothesis-generated API program executed by two persistent workers (C, PURE_PYTHON), traces compared entry by entry',
         'Differential search over generated programs; no expectation table. Exploration.',
         'Vocabulary = union of the other checks\' vocabularies; out-of-contract garbage arguments not generated.', '3/C10'),
 'C11': ('fault/schedule injection with Hypothesis-generated registry contents: (1) every callback point out of a lookup (lazy required, overridden _uncached_*, __providedBy__/__provides__/__conform__ descriptors, factory/subscriber, _generation property) x generated action (mutation of any kind, nested lookup, raise) with an ownership audit of the cache containers (gc.get_referents + sys.getrefcount) and a never-interrupted twin registry as oracle; (2) opcode-boundary preemption: X under sys.settrace per-opcode events, complete operation Y run inline at event k, k enumerated; (3) reference-count / allocated-block deltas over repeated calls; (4) thread stress with a mutation-epoch oracle, plain and AddressSanitizer builds',
         'Fault enumeration: every call-out point of the lookup code crossed with generated mutations, and every bytecode boundary of zope.interface\'s own Python frames for two operations in flight (exhaustive over k in the thorough tier, evenly sampled in the quick tier); free-running schedules with three or more operations in flight are only sampled by the thread stress.',
         'GIL build: thread switches happen only at bytecode boundaries; the ownership audit keeps containers alive and reads reference counts instead of waiting for a crash (the ASan campaign of the thorough tier runs without it); rebuild() is an interrupting action only.', '3/C11'),
 'C12': ('exhaustive pairs/triples over a curated name/module set + Hypothesis-generated collections, cross-process (hash seeds x implementations) sort comparison',
         'Complete enumeration of a curated finite set plus generated strings; cross-process determinism by comparing 6 workers. Exploration with exhaustive partition.',
         'Names containing spaces are outside the domain (reinterpreted as doc strings).', '3/C12'),
 'C13': ('Hypothesis-generated importable modules with every declaration shape; pickle round trip at every protocol vs. identity/equality/interface-list oracle and pickletools scan',
         'Round-trip search. Exploration.',
         'Unpickling where the same module is importable (synthetic module in sys.modules).', '3/C13'),
 'C14': ('complete enumeration of the conform x provided x hooks x alternate x __adapt__ product vs. precedence model with call logs, plus Hypothesis-generated registry hooks',
         'Finite product enumerated completely in both implementations; registry-backed variant generated. Exhaustive over the stated product.',
         'adapter_hooks is saved and restored around every case.', '3/C14'),
 'C15': ('Hypothesis-generated interface DAGs with clashing names/tags/invariants and rebasing histories vs. first-definer-in-__iro__ model',
         'Generated-input search; all accessors compared with one model and with each other. Exploration.',
         '__iro__ itself is judged by C03.', '3/C15'),
 'C16': ('Hypothesis-generated histories over the eight register/unregister methods vs. dict/list model, event capture and a fresh Components twin',
         'Generated-input search against a reference model and a twin. Exploration.',
         'Equal components of mixed hashability are excluded as violating Python\'s data model.', '3/C16'),
 'C17': ('complete enumeration of the signature grid vs. inspect.signature().bind over every admitted call shape; Hypothesis-generated multi-error candidates',
         'Finite grid enumerated completely; multi-error part generated. Exhaustive over the stated grid.',
         'Keyword-only parameters outside the stated domain.', '3/C17'),
 'C18': ('complete enumeration of a signature grid compiled from generated source + Hypothesis-generated names/defaults vs. inspect.signature',
         'Finite grid enumerated completely, generated extras. Exhaustive over the stated grid.',
         'Trusts inspect.signature.', '3/C18'),
 'C19': ('Hypothesis-generated class DAGs and declaration histories; every (C, ob) super proxy vs. DeclModel over the remaining MRO and RegModel adaptation',
         'Generated-input search against reference models. Exploration.',
         'Same band reading as C01.', '3/C19'),
 'C20': ('Hypothesis-generated nested declaration arguments and operand pairs vs. ordered-list model',
         'Generated-input search against a list model. Exploration.',
         'A new member of B that extends only another new member of B may land in front (statement silent).', '3/C20'),
}

LEVEL_CATEGORY = {'C11': 'fault_enumeration'}

PENDING_REASON = ('check designed (DESIGN.md section 3) but not implemented '
                  'yet in this revision; no claim is made')


def main():
    checks = []
    na = []
    for pid in sorted(CHECKS):
        tech, text, note, ref = CHECKS[pid]
        if os.path.exists(os.path.join(VERIF, 'checks', pid.lower() + '.py')):
            checks.append({
                'property_id': pid,
                'quick_cmd': '/venv/bin/python vcheck.py %s --tier quick' % pid,
                'thorough_cmd': '/venv/bin/python vcheck.py %s --tier thorough'
                                % pid,
                'evidence_file': 'evidence/%s.json' % pid,
                'replay_cmd_template': '/venv/bin/python vcheck.py %s '
                                       '--replay {path}' % pid,
                'engine': 'vcheck',
                'level_claimed': {
                    'category': LEVEL_CATEGORY.get(pid, 'exploration'),
                    'text': text, 'design_ref': 'DESIGN.md ' + ref},
                'level_note': note,
                'technique': tech,
            })
        else:
            na.append({'property_id': pid, 'reason': PENDING_REASON})
    man = {
        'version': 1,
        'setup_cmd': '/venv/bin/python tools/setup.py',
        'hooks': {
            'guard': 'ZOPE_INTERFACE_VERIF',
            'enable': 'no hooks are needed: every observation point is public '
                      'API, gc/sys introspection or a documented override; '
                      'checks rebuild a shadow copy of /repo/src (including '
                      'the C extension) on every run',
            'baseline_off_cmd': 'cd /repo && /venv/bin/python -m pytest -ra -q '
                                '-p no:cacheprovider --timeout=900 '
                                '--continue-on-collection-errors',
            'source_commits': [],
            'add_only': True,
        },
        'engines': [{
            'name': 'vcheck', 'path': 'vcheck.py',
            'serves_properties': [c['property_id'] for c in checks],
            'kind_free_text': 'Hypothesis 6.168 generators (op-list histories, '
                              'blueprints), exhaustive enumeration of finite '
                              'grids, atheris (thorough tier) - one worker '
                              'process per (implementation, configuration)',
        }],
        'checks': checks,
        'not_applicable': na,
        'notes': 'Property-based testing / fuzzing only.  Known findings and '
                 'repaired defects: KNOWN_FINDINGS.txt.  Sensitivity mutants: '
                 'sensitivity/mutants.json, seeded/.',
    }
    with open(os.path.join(VERIF, 'MANIFEST.json'), 'w') as f:
        json.dump(man, f, indent=1)
    print('claimed:', [c['property_id'] for c in checks])
    print('pending:', [n['property_id'] for n in na])


if __name__ == '__main__':
    main()
