#!/venv/bin/python
"""Confirm a seeded change delivered by a sub-agent under /tmp/seed/<id>/ and,
if it holds up, keep it as /verif/seeded/<id>/ and register it as a mutant.

Confirms, in a scratch worktree of /repo (removed afterwards):
  * the patch applies to /repo's HEAD,
  * the repository's test-suite still gives the baseline in both modes,
  * demo.py fails with the change and passes without it.
"""
import json
import os
import re
import shutil
import subprocess
import sys

VERIF = os.path.dirname(os.path.dirname(os.path.abspath(__file__)))
WT_ROOT = '/tmp/wt'


def sh(cmd, **kw):
    return subprocess.run(cmd, shell=isinstance(cmd, str),
                          capture_output=True, text=True, **kw)


def run_demo(wt, demo, pure):
    env = dict(os.environ)
    if pure is None:
        env.pop('PURE_PYTHON', None)
    else:
        env['PURE_PYTHON'] = pure
    try:
        p = subprocess.run(['/tmp/wtools/wtpy', wt, demo], env=env,
                           capture_output=True, text=True, timeout=600)
        return p.returncode, (p.stdout + p.stderr)[-400:]
    except subprocess.TimeoutExpired:
        return 'timeout', ''


def suite(wt):
    res = {}
    for pure in ('0', '1'):
        env = dict(os.environ, PURE_PYTHON=pure)
        p = subprocess.run(
            ['/tmp/wtools/wtpy', wt, '-m', 'pytest', '-q', '-p',
             'no:cacheprovider', '--timeout=900',
             '--continue-on-collection-errors',
             os.path.join(wt, 'src/zope/interface')],
            env=env, capture_output=True, text=True, cwd=wt)
        last = p.stdout.strip().split('\n')[-1]
        res[pure] = last
    return res


def main():
    sid = sys.argv[1]
    src = os.path.join('/tmp/seed', sid)
    prop = re.match(r'(C\d+)', sid).group(1)
    wt = os.path.join(WT_ROOT, 'confirm-' + sid)
    sh(['git', '-C', '/repo', 'worktree', 'remove', '--force', wt])
    r = sh(['git', '-C', '/repo', 'worktree', 'add', '-q', '--detach', wt,
            'HEAD'])
    assert r.returncode == 0, r.stderr
    report = {'seed': sid, 'property': prop}
    try:
        sh(['/tmp/wtools/wtbuild', wt])
        demo = os.path.join(src, 'demo.py')
        report['demo_without'] = {
            'c': run_demo(wt, demo, '0'), 'py': run_demo(wt, demo, '1')}
        r = sh(['git', '-C', wt, 'apply', os.path.join(src, 'patch.diff')])
        report['applies'] = r.returncode == 0
        if r.returncode != 0:
            report['apply_error'] = r.stderr[-500:]
            print(json.dumps(report, indent=1))
            return 1
        sh(['/tmp/wtools/wtbuild', wt])
        report['suite_with'] = suite(wt)
        report['demo_with'] = {
            'c': run_demo(wt, demo, '0'), 'py': run_demo(wt, demo, '1')}
        ok_suite = all(re.match(r'12 failed, 1350 passed', v)
                       for v in report['suite_with'].values())
        fails_with = any(rc != 0 for rc, _ in report['demo_with'].values())
        passes_without = all(rc == 0
                             for rc, _ in report['demo_without'].values())
        report['confirmed'] = bool(ok_suite and fails_with and passes_without)
    finally:
        sh(['git', '-C', '/repo', 'worktree', 'remove', '--force', wt])
    print(json.dumps(report, indent=1))
    if not report.get('confirmed'):
        return 1
    dest = os.path.join(VERIF, 'seeded', sid)
    os.makedirs(dest, exist_ok=True)
    for fn in ('patch.diff', 'demo.py'):
        shutil.copyfile(os.path.join(src, fn), os.path.join(dest, fn))
    meta = {}
    try:
        meta = json.load(open(os.path.join(src, 'meta.json')))
    except Exception as e:  # noqa
        meta = {'note': 'agent meta.json unreadable: %s' % e}
    meta['property'] = prop
    meta['confirmation'] = report
    with open(os.path.join(dest, 'meta.json'), 'w') as f:
        json.dump(meta, f, indent=1)
    mp = os.path.join(VERIF, 'sensitivity', 'mutants.json')
    import fcntl
    with open(mp + '.lock', 'w') as lk:     # several confirmations at once
        fcntl.flock(lk, fcntl.LOCK_EX)
        muts = json.load(open(mp))
        muts['seed_' + sid] = {'props': [prop],
                               'patch': 'seeded/%s/patch.diff' % sid,
                               'note': (meta.get('summary') or '')[:200]}
        with open(mp + '.tmp', 'w') as f:
            json.dump(muts, f, indent=1)
        os.replace(mp + '.tmp', mp)
    return 0


if __name__ == '__main__':
    sys.exit(main())
