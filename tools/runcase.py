#!/venv/bin/python
"""Debug helper: run one case (a JSON file holding a case, or a replay file)
of a check in this process.

    VERIF_SHADOW=$(python -m vlib.build) tools/runcase.py C11 case.json [c|py]
"""
import faulthandler
import json
import os
import sys

sys.path.insert(0, os.path.dirname(os.path.dirname(os.path.abspath(__file__))))
from vlib import boot  # noqa: E402
from vlib import build  # noqa: E402

prop = sys.argv[1]
impl = sys.argv[3] if len(sys.argv) > 3 else 'c'
boot.activate(os.environ.get('VERIF_SHADOW') or build.ensure('plain'), impl)
import importlib  # noqa: E402

from vlib import core  # noqa: E402

mod = importlib.import_module('checks.' + prop.lower())
case = json.load(open(sys.argv[2]))
cfg = {'impl': impl, 'reps': 40, 'kmax': 80, 'dur': 2}
if 'case' in case and 'property' in case:
    cfg.update(case.get('config') or {})
    case = case['case']
cfg.update(json.loads(os.environ.get('CFG', '{}')))
faulthandler.dump_traceback_later(int(os.environ.get('HANG', '30')),
                                  exit=True)
out = core.Out()
mod.run_case(case, cfg, out)
print('fails:', out.fails)
print('tags:', out.tags, 'nontrivial:', out.nontrivial, 'checks:', out.checks)
