#!/venv/bin/python
"""MANIFEST.setup_cmd: make sure the third-party pieces are importable (offline)
and build the shadow copy of /repo once."""
import os
import subprocess
import sys

VERIF = os.path.dirname(os.path.dirname(os.path.abspath(__file__)))
WHEELS = '/opt/veriftools/wheels'
DEPS = os.path.join(VERIF, '.deps')
sys.path.insert(0, VERIF)
sys.path.insert(0, DEPS)


def have(mod):
    try:
        __import__(mod)
        return True
    except Exception:
        return False


def main():
    os.makedirs(DEPS, exist_ok=True)
    if not have('hypothesis'):
        subprocess.check_call([sys.executable, '-m', 'pip', 'install', '-q',
                               '--no-index', '--find-links', WHEELS,
                               '--target', DEPS, 'hypothesis'])
    if not have('atheris'):
        # only the thorough tier uses it; absence is tolerated there
        subprocess.call([sys.executable, '-m', 'pip', 'install', '-q',
                         '--no-index', '--find-links', WHEELS, '--target',
                         DEPS, 'atheris'])
    from vlib import build
    print('shadow build:', build.ensure('plain'))
    return 0


if __name__ == '__main__':
    sys.exit(main())
