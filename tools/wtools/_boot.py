"""Run Python with a scratch worktree's src/ shadowing the installed repo."""
import os
import runpy
import sys

wt = os.path.abspath(sys.argv[1])
args = sys.argv[2:]
src = os.path.join(wt, 'src')
sys.path.insert(0, src)
import zope  # noqa: E402  (namespace created by the nspkg .pth)

zope.__path__ = [os.path.join(src, 'zope')] + [
    p for p in list(zope.__path__)
    if not os.path.realpath(p).startswith('/repo/')]
import zope.interface  # noqa: E402

assert os.path.realpath(zope.interface.__file__).startswith(
    os.path.realpath(src)), zope.interface.__file__
if not args:
    sys.exit('usage: wtpy <worktree> script.py [args] | -m module | -c code')
if args[0] == '-m':
    sys.argv = args[1:]
    runpy.run_module(args[1], run_name='__main__', alter_sys=True)
elif args[0] == '-c':
    sys.argv = ['-c'] + args[2:]
    exec(compile(args[1], '<string>', 'exec'), {'__name__': '__main__'})
else:
    sys.argv = args
    runpy.run_path(args[0], run_name='__main__')
