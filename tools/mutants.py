#!/venv/bin/python
"""Sensitivity testing: run checks against deliberately broken copies.

    tools/mutants.py list
    tools/mutants.py run [--only ID,ID] [--props C03,C04] [--tier quick] [-j N]
    tools/mutants.py suite ID        # run the repo's own tests on the mutant

Mutants live in sensitivity/mutants.json:
  {"id": {"props": ["C04"], "file": "src/zope/interface/adapter.py",
          "old": "...", "new": "...", "count": 1, "note": "..."}}
or {"id": {"props": [...], "revert": "sensitivity/revert_fixes/x.patch"}}
or {"id": {"props": [...], "patch": "seeded/x/patch.diff"}}

Every mutant is applied to a scratch copy of /repo's tracked src tree under
/tmp/vmut/<id> (never to /repo) and the checks are pointed at it with
VERIF_REPO.  The copy is removed afterwards.
"""
import argparse
import concurrent.futures
import json
import os
import shutil
import subprocess
import sys
import time

VERIF = os.path.dirname(os.path.dirname(os.path.abspath(__file__)))
REPO = '/repo'
SCRATCH = '/tmp/vmut'


def load():
    with open(os.path.join(VERIF, 'sensitivity', 'mutants.json')) as f:
        return json.load(f)


def make_copy(mid, spec):
    dest = os.path.join(SCRATCH, mid)
    shutil.rmtree(dest, ignore_errors=True)
    os.makedirs(dest)
    # tracked files only, from the working tree
    files = subprocess.run(['git', '-C', REPO, 'ls-files'], check=True,
                           capture_output=True, text=True).stdout.split('\n')
    for f in files:
        if not f:
            continue
        src = os.path.join(REPO, f)
        if not os.path.exists(src):
            continue
        dst = os.path.join(dest, f)
        os.makedirs(os.path.dirname(dst), exist_ok=True)
        shutil.copyfile(src, dst)
    if 'revert' in spec or 'patch' in spec:
        p = os.path.join(VERIF, spec.get('revert') or spec['patch'])
        cmd = ['patch', '-p1', '-s', '--no-backup-if-mismatch', '-i', p]
        if 'revert' in spec:
            cmd.insert(1, '-R')
        r = subprocess.run(cmd, cwd=dest, capture_output=True, text=True)
        if r.returncode != 0:
            raise RuntimeError('patch failed for %s: %s%s' % (mid, r.stdout,
                                                              r.stderr))
    else:
        edits = spec.get('edits') or [spec]
        for e in edits:
            path = os.path.join(dest, e['file'])
            s = open(path).read()
            cnt = s.count(e['old'])
            want = e.get('count', 1)
            if cnt != want:
                raise RuntimeError('%s: %r occurs %d times in %s, expected %d'
                                   % (mid, e['old'][:60], cnt, e['file'],
                                      want))
            s = s.replace(e['old'], e['new'])
            open(path, 'w').write(s)
    return dest


def run_check(mid, spec, prop, tier, seed):
    env = dict(os.environ)
    env['VERIF_REPO'] = os.path.join(SCRATCH, mid)
    env['VERIF_SEED'] = str(seed)
    env['VERIF_REPLAY_DIR'] = os.path.join(SCRATCH, mid, 'replays')
    env['VERIF_JOBS'] = env.get('VERIF_MUT_JOBS', '6')
    t0 = time.time()
    p = subprocess.run(
        [sys.executable, os.path.join(VERIF, 'vcheck.py'), prop, '--tier',
         tier, '--no-evidence'], cwd=VERIF, env=env, capture_output=True,
        text=True)
    viol = [l for l in p.stdout.split('\n') if l.startswith('VIOLATION')]
    sigs = [l.strip() for l in p.stderr.split('\n')
            if l.strip().startswith('signature:')]
    return {'mutant': mid, 'prop': prop, 'rc': p.returncode,
            'violations': len(viol), 'sigs': sigs[:3],
            'wall': round(time.time() - t0, 1),
            'stderr_tail': p.stderr[-600:] if p.returncode == 2 else ''}


def do_one(mid, spec, props, tier, seed):
    try:
        make_copy(mid, spec)
    except Exception as e:  # noqa
        return [{'mutant': mid, 'prop': '-', 'rc': 'setup-failed',
                 'violations': 0, 'sigs': [str(e)[:300]], 'wall': 0,
                 'stderr_tail': ''}]
    out = []
    try:
        for prop in props:
            out.append(run_check(mid, spec, prop, tier, seed))
    finally:
        keep = os.environ.get('MUT_KEEP_REPLAYS')
        rdir = os.path.join(SCRATCH, mid, 'replays')
        if keep and os.path.isdir(rdir):
            shutil.copytree(rdir, os.path.join(keep, mid),
                            dirs_exist_ok=True)
        shutil.rmtree(os.path.join(SCRATCH, mid), ignore_errors=True)
    return out


def record(results, tier, seed):
    """merge the outcome of this run into sensitivity/results.json"""
    path = os.path.join(VERIF, 'sensitivity', 'results.json')
    try:
        with open(path) as f:
            allr = json.load(f)
    except (OSError, ValueError):
        allr = {}
    for r in results:
        if r['prop'] == '-':
            continue
        allr.setdefault(r['mutant'], {})[r['prop']] = {
            'status': 'caught' if r['rc'] == 1 else (
                'missed' if r['rc'] == 0 else 'error'),
            'signatures': [s.replace('signature: ', '') for s in r['sigs']],
            'tier': tier, 'seed': seed, 'wall_s': r['wall']}
    with open(path + '.tmp', 'w') as f:
        json.dump(allr, f, indent=1, sort_keys=True)
    os.replace(path + '.tmp', path)


def main():
    ap = argparse.ArgumentParser()
    ap.add_argument('cmd', choices=['list', 'run', 'suite'])
    ap.add_argument('id', nargs='?')
    ap.add_argument('--only')
    ap.add_argument('--props')
    ap.add_argument('--tier', default='quick')
    ap.add_argument('--seed', type=int, default=1)
    ap.add_argument('-j', type=int, default=3)
    args = ap.parse_args()
    muts = load()
    if args.cmd == 'list':
        for k, v in muts.items():
            print(k, v.get('props'), v.get('note', ''))
        return 0
    if args.cmd == 'suite':
        spec = muts[args.id]
        dest = make_copy(args.id, spec)
        try:
            subprocess.run([sys.executable, 'setup.py', '-q', 'build_ext',
                            '--inplace'], cwd=dest, capture_output=True)
            for pure in ('0', '1'):
                env = dict(os.environ, PURE_PYTHON=pure,
                           PYTHONPATH=os.path.join(dest, 'src'))
                code = (
                    "import sys,os;sys.path.insert(0,%r);import zope;"
                    "zope.__path__.insert(0,%r);import zope.interface as z;"
                    "assert z.__file__.startswith(%r), z.__file__;"
                    "import pytest;sys.exit(pytest.main(['-q','-x','-p',"
                    "'no:cacheprovider',%r]))" % (
                        os.path.join(dest, 'src'),
                        os.path.join(dest, 'src', 'zope'), dest,
                        os.path.join(dest, 'src', 'zope', 'interface')))
                p = subprocess.run([sys.executable, '-c', code], cwd=dest,
                                   env=env, capture_output=True, text=True)
                print('PURE_PYTHON=%s:' % pure,
                      p.stdout.strip().split('\n')[-1])
        finally:
            shutil.rmtree(dest, ignore_errors=True)
        return 0
    only = set(args.only.split(',')) if args.only else None
    pfilter = set(args.props.split(',')) if args.props else None
    jobs = []
    for mid, spec in muts.items():
        if only and mid not in only:
            continue
        props = [p for p in spec['props'] if not pfilter or p in pfilter]
        if not props:
            continue
        jobs.append((mid, spec, props))
    results = []
    with concurrent.futures.ThreadPoolExecutor(args.j) as ex:
        futs = [ex.submit(do_one, mid, spec, props, args.tier, args.seed)
                for mid, spec, props in jobs]
        for f in concurrent.futures.as_completed(futs):
            for r in f.result():
                results.append(r)
                status = 'CAUGHT' if r['rc'] == 1 else (
                    'MISSED' if r['rc'] == 0 else 'ERROR(%s)' % r['rc'])
                print('%-28s %-4s %-7s %5.1fs %s %s' % (
                    r['mutant'], r['prop'], status, r['wall'],
                    '; '.join(r['sigs'])[:150], r['stderr_tail'][-300:]),
                    flush=True)
    record(results, args.tier, args.seed)
    missed = [r for r in results if r['rc'] != 1]
    print('%d runs, %d caught, %d not caught' % (
        len(results), len(results) - len(missed), len(missed)))
    return 0


if __name__ == '__main__':
    sys.exit(main())
