#!/bin/sh
# run every check's tier ($1 = quick|thorough, default quick), one after the
# other; prints one summary line per check.  Usage: tools/run_all.sh thorough [IDs...]
tier=${1:-quick}; shift 2>/dev/null
ids=${*:-C01 C02 C03 C04 C05 C06 C07 C08 C09 C10 C11 C12 C13 C14 C15 C16 C17 C18 C19 C20}
cd "$(dirname "$0")/.."
mkdir -p .work
/venv/bin/python tools/setup.py >/dev/null 2>&1
for id in $ids; do
  start=$(date +%s)
  /venv/bin/python vcheck.py $id --tier $tier > .work/run_all_$id.out 2> .work/run_all_$id.err
  rc=$?
  echo "$id rc=$rc $(( $(date +%s) - start ))s $(grep -c '^VIOLATION' .work/run_all_$id.out) violations; $(grep -c '^KNOWN-FINDING' .work/run_all_$id.out) known; $(tail -1 .work/run_all_$id.err)"
  grep '^VIOLATION\|^KNOWN-FINDING' .work/run_all_$id.out | cut -c1-200
done
