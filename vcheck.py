#!/venv/bin/python
"""Entry point of every check.

    /venv/bin/python vcheck.py <ID> --tier quick|thorough
    /venv/bin/python vcheck.py <ID> --replay <file.json>

exit 0  property held on everything explored (KNOWN-FINDING lines possible)
exit 1  at least one "VIOLATION property=<ID> replay=<path>" line was printed
exit 2  harness error (build failure, worker protocol error, ...)
"""
import argparse
import hashlib
import importlib
import json
import os
import shutil
import signal
import subprocess
import sys
import tempfile
import time

VERIF = os.path.dirname(os.path.abspath(__file__))
# the generated campaigns of the thorough tier run this many times the
# case count a module asks for (VERIF_THOROUGH_FACTOR=4 for a deeper run)
THOROUGH_FACTOR = float(os.environ.get('VERIF_THOROUGH_FACTOR', '2'))
sys.path.insert(0, VERIF)
DEPS = os.path.join(VERIF, '.deps')

from vlib import build  # noqa: E402


def log(*a):
    print(*a, file=sys.stderr, flush=True)


def derive_seed(base, *parts):
    h = hashlib.sha1(('%s|' % base + '|'.join(map(str, parts))).encode())
    return int(h.hexdigest()[:8], 16)


def spawn(cfg, shadow, workdir, idx):
    cfgpath = os.path.join(workdir, 'cfg%d.json' % idx)
    outpath = os.path.join(workdir, 'out%d.json' % idx)
    with open(cfgpath, 'w') as f:
        json.dump(cfg, f)
    env = dict(os.environ)
    for k in ('ZOPE_INTERFACE_STRICT_IRO', 'ZOPE_INTERFACE_USE_LEGACY_IRO',
              'ZOPE_INTERFACE_LOG_CHANGED_IRO', 'PURE_PYTHON'):
        env.pop(k, None)
    env['VERIF_SHADOW'] = cfg.get('shadow') or shadow
    env['VERIF_IMPL'] = cfg.get('impl', 'c')
    env['PYTHONHASHSEED'] = str(cfg.get('hashseed', 0))
    env['PYTHONPATH'] = VERIF + os.pathsep + DEPS
    env['PYTHONDONTWRITEBYTECODE'] = '1'
    env.update({k: str(v) for k, v in (cfg.get('env') or {}).items()})
    logf = open(os.path.join(workdir, 'log%d.txt' % idx), 'w')
    p = subprocess.Popen(
        [sys.executable, '-m', 'vlib.worker', cfgpath, outpath],
        cwd=VERIF, env=env, stdout=logf, stderr=subprocess.STDOUT)
    return {'proc': p, 'cfg': cfg, 'out': outpath, 'log': logf.name,
            'start': time.time(), 'idx': idx}


def run_workers(cfgs, shadow, workdir, jobs):
    pending = list(enumerate(cfgs))
    running = []
    done = []
    while pending or running:
        while pending and len(running) < jobs:
            idx, cfg = pending.pop(0)
            running.append(spawn(cfg, shadow, workdir, idx))
        time.sleep(0.05)
        for w in list(running):
            rc = w['proc'].poll()
            limit = float(w['cfg'].get(
                'kill_after_s',
                1800 if w['cfg'].get('tier') == 'quick' else 4 * 3600))
            if rc is None and time.time() - w['start'] > limit:
                w['proc'].kill()
                w['proc'].wait()
                rc = 'timeout'
            if rc is not None:
                w['rc'] = rc
                running.remove(w)
                done.append(w)
    done.sort(key=lambda w: w['idx'])
    return done


def main():
    ap = argparse.ArgumentParser()
    ap.add_argument('prop')
    ap.add_argument('--tier', default=os.environ.get('VERIF_TIER', 'quick'),
                    choices=['quick', 'thorough'])
    ap.add_argument('--replay')
    ap.add_argument('--jobs', type=int,
                    default=int(os.environ.get('VERIF_JOBS', '16')))
    ap.add_argument('--scale', type=float,
                    default=float(os.environ.get('VERIF_SCALE', '1')))
    ap.add_argument('--no-evidence', action='store_true')
    args = ap.parse_args()
    prop = args.prop.upper()
    seed = int(os.environ.get('VERIF_SEED', '1') or 1)
    t0 = time.time()

    try:
        shadow = build.ensure('plain')
    except Exception as e:  # noqa
        log('harness error: build failed: %s' % e)
        return 2

    os.environ['VERIF_SHADOW'] = shadow
    try:
        from vlib import boot
        boot.activate(shadow, 'c')
        mod = importlib.import_module('checks.' + prop.lower())
    except Exception:
        import traceback
        log('harness error: cannot import check / zope.interface:\n' +
            traceback.format_exc())
        return 2

    os.makedirs(os.path.join(VERIF, '.work'), exist_ok=True)
    workdir = tempfile.mkdtemp(prefix='%s-' % prop,
                               dir=os.path.join(VERIF, '.work'))
    try:
        if args.replay:
            rec = json.load(open(args.replay))
            cfg = dict(rec.get('config') or {})
            cfg.update(prop=prop, mode='replay', case=rec['case'])
            cfg.setdefault('impl', 'c')
            cfg.setdefault('name', 'replay')
            if cfg.get('asan'):
                cfg['shadow'] = build.ensure('asan')
            done = run_workers([cfg], shadow, workdir, 1)
            return report(prop, mod, args, seed, done, t0, replay=True)

        cfgs = mod.configs(args.tier, seed)
        if args.tier == 'thorough' and getattr(mod, 'AUTO_SHARD', True):
            # Hypothesis is single-core: split every generated campaign
            # that the module did not shard itself over the cores (each
            # shard has its own seed; together they run THOROUGH_FACTOR
            # times the module's thorough case count)
            plain = [c for c in cfgs if c.get('mode', 'hyp') == 'hyp' and
                     'shard' not in c and 'n' in c]
            k = max(1, min(8, args.jobs // max(1, len(cfgs))))
            if plain and k > 1:
                out_ = []
                for c in cfgs:
                    if c not in plain:
                        out_.append(c)
                        continue
                    for sh in range(k):
                        d = dict(c)
                        d['shard'] = sh
                        d['name'] = '%s-s%d' % (c.get('name', 'cfg'), sh)
                        d['n'] = max(1, int(THOROUGH_FACTOR * int(c['n'])
                                            ) // k)
                        out_.append(d)
                cfgs = out_
        if args.tier == 'thorough' and getattr(mod, 'ATHERIS', None) and \
                os.path.isdir(os.path.join(DEPS, 'atheris')):
            # coverage-guided supplement: libFuzzer mutates the byte
            # stream Hypothesis builds cases from (see core.run_atheris)
            for a in mod.ATHERIS:
                d = dict(a)
                d['mode'] = 'atheris'
                d.setdefault('name', '%s-atheris' % d.get('impl', 'py'))
                cfgs.append(d)
        only = os.environ.get('VERIF_ONLY')
        if only:
            cfgs = [c for c in cfgs if only in c.get('name', '')]
        out = []
        for i, cfg in enumerate(cfgs):
            cfg = dict(cfg)
            cfg.setdefault('impl', 'c')
            cfg.setdefault('mode', 'hyp')
            cfg.setdefault('name', '%s-%d' % (cfg['impl'], i))
            cfg['prop'] = prop
            cfg['tier'] = args.tier
            cfg['seed'] = derive_seed(seed, prop,
                                      cfg.get('seed_group') or cfg['name'],
                                      cfg.get('shard', 0))
            if 'n' in cfg:
                cfg['n'] = max(1, int(cfg['n'] * args.scale))
            if cfg.get('asan'):
                try:
                    cfg['shadow'] = build.ensure('asan')
                    rt = build.asan_runtime()
                    if not rt:
                        raise build.BuildError('no asan runtime')
                    env = dict(cfg.get('env') or {})
                    env.update(LD_PRELOAD=rt, PYTHONMALLOC='malloc',
                               ASAN_OPTIONS='detect_leaks=0:'
                               'allocator_may_return_null=1')
                    cfg['env'] = env
                except Exception as e:  # noqa
                    log('note: ASan variant unavailable (%s); skipped' % e)
                    continue
            out.append(cfg)
        done = run_workers(out, shadow, workdir, args.jobs)
        return report(prop, mod, args, seed, done, t0)
    finally:
        if not os.environ.get('VERIF_KEEP_WORK'):
            shutil.rmtree(workdir, ignore_errors=True)


def report(prop, mod, args, seed, done, t0, replay=False):
    from vlib import core
    known = core.load_known(prop)
    evaluations = 0
    hashes = set()
    classes = {}
    samples = []
    adjusted = 0
    oracle_checks = 0
    known_hits = {}
    violations = []
    harness = []
    per_config = []
    for w in done:
        cfg = w['cfg']
        s = None
        if os.path.exists(w['out']):
            try:
                s = json.load(open(w['out']))
            except Exception:
                s = None
        rc = w['rc']
        if s is None:
            tail = ''
            try:
                tail = open(w['log']).read()[-3000:]
            except OSError:
                pass
            crashed = isinstance(rc, int) and rc < 0
            crash_ok = getattr(mod, 'CRASH_IS_VIOLATION', True)
            if crashed and crash_ok:
                # interpreter died inside the code under test
                d = os.path.join(os.environ.get('VERIF_REPLAY_DIR') or os.path.join(VERIF, 'replays'), prop)
                os.makedirs(d, exist_ok=True)
                path = os.path.join(d, 'crash-%s-%s.json' % (cfg['name'],
                                                             cfg['seed']))
                journal = os.path.join(os.path.dirname(w['out']),
                                       'journal%d.json' % w['idx'])
                case = None
                if os.path.exists(journal):
                    try:
                        case = json.load(open(journal))
                    except Exception:
                        case = None
                with open(path, 'w') as f:
                    json.dump({'property': prop, 'config': cfg, 'case': case,
                               'signature': 'crash:signal%d' % -rc,
                               'observed': tail}, f, indent=1, default=repr)
                violations.append({'sig': 'crash:signal%d' % -rc,
                                   'msg': tail[-500:], 'replay': path})
            else:
                harness.append('worker %s rc=%s\n%s' % (cfg['name'], rc, tail))
            per_config.append({'name': cfg['name'], 'rc': str(rc)})
            continue
        evaluations += s['evaluations']
        hashes.update(s['nontrivial_hashes'])
        for k, v in s['classes'].items():
            classes[k] = classes.get(k, 0) + v
        for c in s['samples']:
            if len(samples) < 4:
                samples.append(c)
        adjusted += s['adjusted']
        oracle_checks += s.get('oracle_checks', 0)
        for k, v in s['known_hits'].items():
            known_hits[k] = known_hits.get(k, 0) + v
        violations.extend(s['violations'])
        if s['status'] != 'ok' or s['harness_errors']:
            harness.extend(s['harness_errors'] or ['worker status %s'
                                                   % s['status']])
        per_config.append({
            'name': cfg['name'], 'impl': cfg.get('impl'),
            'mode': cfg.get('mode'), 'env': cfg.get('env') or {},
            'evaluations': s['evaluations'],
            'nontrivial': len(s['nontrivial_hashes']),
            'wall_s': s['wall_s'], 'out_of_time': s['out_of_time'],
            'seed': cfg.get('seed')})

    cross = getattr(mod, 'cross_check', None)
    if cross and not replay:
        extras = []
        for w in done:
            try:
                extras.append((w['cfg'], json.load(open(w['out'])).get('extra')))
            except Exception:
                pass
        for k, (sig, msg, case, cfg) in enumerate(cross(extras) or ()):
            d = os.path.join(os.environ.get('VERIF_REPLAY_DIR') or os.path.join(VERIF, 'replays'), prop)
            os.makedirs(d, exist_ok=True)
            path = os.path.join(d, 'cross-%d-%s.json' % (k, seed))
            with open(path, 'w') as f:
                json.dump({'property': prop, 'config': cfg, 'case': case,
                           'signature': sig, 'observed': msg}, f, indent=1,
                          default=repr)
            violations.append({'sig': sig, 'msg': msg, 'replay': path})

    for sig, text in sorted(known.items()):
        print('KNOWN-FINDING: property=%s sig=%s reproduced=%s %s' % (
            prop, sig, 'yes' if known_hits.get(sig) else 'no', text))
    seen = set()
    for v in violations:
        if v['replay'] in seen:
            continue
        seen.add(v['replay'])
        print('VIOLATION property=%s replay=%s' % (prop, v['replay']))
        log('  signature: %s\n  %s' % (v['sig'], v['msg'][:1500]))
    for h in harness:
        log('HARNESS ERROR:\n' + h)

    wall = round(time.time() - t0, 2)
    if not replay and not args.no_evidence:
        nt = len(hashes)
        warn = None
        if evaluations and nt < 0.1 * evaluations and \
                not getattr(mod, 'LOW_NT_OK', False):
            warn = 'non-trivial fraction %.1f%%' % (100.0 * nt / evaluations)
            log('generator warning: ' + warn)
        cov = {
            'evaluations': evaluations,
            'distinct_nontrivial': nt,
            'rule': mod.RULE,
            'samples': samples,
            'classes': dict(sorted(classes.items())),
            'oracle_comparisons': oracle_checks,
            'adjusted_operands': adjusted,
            'excluded_by_known_finding': known_hits,
            'per_config': per_config,
            'exhaustive': bool(getattr(mod, 'EXHAUSTIVE', False)),
        }
        extra = getattr(mod, 'coverage_extra', None)
        if extra:
            cov.update(extra(args.tier))
        if warn:
            cov['generator_warning'] = warn
        ev = {
            'property_id': prop,
            'tier': args.tier,
            'seed': seed,
            'level': getattr(mod, 'LEVEL', 'exploration'),
            'coverage': cov,
            'assumptions': list(getattr(mod, 'ASSUMPTIONS', [])),
            'wall_s': wall,
            'violations': len(seen),
        }
        os.makedirs(os.path.join(VERIF, 'evidence'), exist_ok=True)
        path = os.path.join(VERIF, 'evidence', prop + '.json')
        with open(path + '.tmp', 'w') as f:
            json.dump(ev, f, indent=1, sort_keys=True, default=repr)
        os.replace(path + '.tmp', path)
    log('%s tier=%s seed=%d evaluations=%d nontrivial=%d violations=%d '
        'known_hits=%s wall=%.1fs' % (prop, args.tier, seed, evaluations,
                                      len(hashes), len(seen), known_hits,
                                      wall))
    if seen:
        return 1
    if harness:
        return 2
    return 0


if __name__ == '__main__':
    sys.exit(main())
