"""Calling the lookup entry points of a registry with keyword arguments."""
PARAMS = {
    'lookup': ('required', 'provided', 'name', 'default'),
    'lookup1': ('required', 'provided', 'name', 'default'),
    'queryAdapter': ('object', 'provided', 'name', 'default'),
    'adapter_hook': ('provided', 'object', 'name', 'default'),
    'queryMultiAdapter': ('objects', 'provided', 'name', 'default'),
    'lookupAll': ('required', 'provided'),
    'names': ('required', 'provided'),
    'subscriptions': ('required', 'provided'),
    'subscribers': ('objects', 'provided'),
}


class Form:
    """A registry whose lookup entry points are called with the first
    ``npos`` arguments positional and the others by their documented
    keyword (IAdapterRegistry)."""

    def __init__(self, reg, npos):
        self._reg = reg
        self._npos = npos

    def __getattr__(self, name):
        f = getattr(self._reg, name)
        params = PARAMS.get(name)
        if params is None or self._npos >= 9:
            return f
        npos = self._npos

        def call(*args):
            kw = dict(zip(params[npos:], args[npos:]))
            return f(*args[:npos], **kw)
        return call
