"""Worker process: one (property, configuration) campaign.

    python -m vlib.worker <cfg.json> <out.json>

cfg keys: prop, name, impl ('c'|'py'), env (dict, applied by the driver),
mode ('hyp'|'enum'|'replay'|'custom'), n, seed, tier, budget_s, plus whatever
the check module wants.
"""
import importlib
import json
import os
import sys
import traceback

sys.path.insert(0, os.path.dirname(os.path.dirname(os.path.abspath(__file__))))


def main():
    cfg = json.load(open(sys.argv[1]))
    outpath = sys.argv[2]
    d, b = os.path.split(outpath)
    cfg['_journal'] = os.path.join(d, b.replace('out', 'journal', 1))
    from vlib import boot
    if cfg.get('mode') == 'atheris':
        # coverage instrumentation has to be in place while the package
        # under test is imported
        sys.path.insert(0, os.path.join(os.path.dirname(os.path.dirname(
            os.path.abspath(__file__))), '.deps'))
        import atheris
        with atheris.instrument_imports(include=['zope.interface']):
            boot.activate(impl=cfg.get('impl', 'c'))
    else:
        boot.activate(impl=cfg.get('impl', 'c'))
    from vlib import core
    mod = importlib.import_module('checks.' + cfg['prop'].lower())
    rec = core.Recorder(cfg['prop'], cfg, mod)
    status = 'ok'
    try:
        if cfg['mode'] == 'replay':
            rec.known = {}
            rec.run_cases([cfg['case']], regression=True)
        else:
            accepts = getattr(mod, 'accepts', lambda case, cfg: True)
            if not cfg.get('no_regress'):
                reg = [r['case'] for _, r in core.regression_cases(cfg['prop'])
                       if accepts(r, cfg)]
                rec.run_cases(reg, regression=True)
                rec.classes['regression_cases'] = len(reg)
            if cfg['mode'] == 'enum':
                rec.run_cases(mod.enumerate_cases(cfg))
            elif cfg['mode'] == 'hyp':
                rec.run_hypothesis(mod.strategy(cfg), int(cfg['n']),
                                   int(cfg['seed']))
            elif cfg['mode'] == 'custom':
                mod.run_custom(cfg, rec)
            elif cfg['mode'] == 'atheris':
                def finish():
                    s = rec.summary()
                    s['status'] = 'ok'
                    s['extra'] = getattr(mod, 'EXTRA', None)
                    with open(outpath + '.tmp', 'w') as f:
                        json.dump(s, f, default=repr)
                    os.replace(outpath + '.tmp', outpath)
                    os._exit(0)
                rec.run_atheris(mod.strategy(cfg), int(cfg['n']),
                                int(cfg['seed']), finish,
                                os.path.join(os.path.dirname(outpath),
                                             'corpus-' + cfg['name']))
            else:
                raise ValueError(cfg['mode'])
    except BaseException:
        status = 'harness_error'
        rec.harness_errors.append(traceback.format_exc()[-4000:])
    s = rec.summary()
    s['status'] = status
    s['extra'] = getattr(mod, 'EXTRA', None)
    tmp = outpath + '.tmp'
    with open(tmp, 'w') as f:
        json.dump(s, f, default=repr)
    os.replace(tmp, outpath)
    sys.stdout.flush()
    sys.stderr.flush()
    # skip interpreter teardown: generated object graphs can be large and
    # nothing here needs finalisation
    os._exit(0 if status == 'ok' else 2)


if __name__ == '__main__':
    main()
