"""Shadow build of /repo's working tree.

/repo is installed editable and its compiled extension is an ignored file that
can be stale with respect to an edited .c file.  Every check therefore copies
src/zope/interface to /verif/.build/<sha>/zope/interface and compiles the
extension there.  <sha> covers every copied file and the compiler flags, so a
complete directory can be reused; concurrent checks serialise on a file lock.
"""
import fcntl
import hashlib
import os
import shutil
import subprocess
import sys
import sysconfig
import time

VERIF = os.path.dirname(os.path.dirname(os.path.abspath(__file__)))
REPO = os.environ.get('VERIF_REPO', '/repo')
BUILD_ROOT = os.path.join(VERIF, '.build')
CFLAGS = ['-shared', '-fPIC', '-O1', '-g', '-fno-strict-overflow', '-DNDEBUG']
ASAN_FLAGS = ['-shared', '-fPIC', '-O1', '-g', '-fno-omit-frame-pointer',
              '-fsanitize=address']


class BuildError(Exception):
    pass


def _source_files():
    root = os.path.join(REPO, 'src', 'zope', 'interface')
    out = []
    for dirpath, dirnames, filenames in os.walk(root):
        dirnames[:] = sorted(d for d in dirnames if d != '__pycache__')
        for fn in sorted(filenames):
            if fn.endswith(('.so', '.pyc', '.pyo', '.o')):
                continue
            full = os.path.join(dirpath, fn)
            out.append((os.path.relpath(full, root), full))
    return out


def tree_hash(variant='plain'):
    h = hashlib.sha1()
    h.update(variant.encode())
    h.update(' '.join(CFLAGS if variant == 'plain' else ASAN_FLAGS).encode())
    h.update(sys.version.encode())
    for rel, full in _source_files():
        h.update(rel.encode())
        h.update(b'\0')
        with open(full, 'rb') as f:
            h.update(f.read())
        h.update(b'\0')
    return h.hexdigest()[:16]


def asan_runtime():
    try:
        p = subprocess.run(
            ['clang', '-print-file-name=libclang_rt.asan-x86_64.so'],
            capture_output=True, text=True, check=True).stdout.strip()
    except Exception:
        return None
    return p if os.path.exists(p) else None


def ensure(variant='plain'):
    """Return the directory to put on sys.path (contains zope/interface)."""
    os.makedirs(BUILD_ROOT, exist_ok=True)
    sha = tree_hash(variant)
    dest = os.path.join(BUILD_ROOT, '%s-%s' % (variant, sha))
    marker = os.path.join(dest, '.complete')
    if os.path.exists(marker):
        os.utime(marker, None)
        return dest
    lock = open(os.path.join(BUILD_ROOT, '.lock'), 'w')
    fcntl.flock(lock, fcntl.LOCK_EX)
    try:
        if os.path.exists(marker):
            return dest
        tmp = dest + '.tmp%d' % os.getpid()
        shutil.rmtree(tmp, ignore_errors=True)
        pkg = os.path.join(tmp, 'zope', 'interface')
        for rel, full in _source_files():
            target = os.path.join(pkg, rel)
            os.makedirs(os.path.dirname(target), exist_ok=True)
            shutil.copyfile(full, target)
        csrc = os.path.join(pkg, '_zope_interface_coptimizations.c')
        if os.path.exists(csrc):
            so = os.path.join(
                pkg, '_zope_interface_coptimizations' +
                sysconfig.get_config_var('EXT_SUFFIX'))
            inc = sysconfig.get_paths()['include']
            if variant == 'plain':
                cmd = ['gcc'] + CFLAGS
            else:
                cmd = ['clang'] + ASAN_FLAGS
            cmd += ['-I', inc, csrc, '-o', so]
            p = subprocess.run(cmd, capture_output=True, text=True)
            if p.returncode != 0:
                shutil.rmtree(tmp, ignore_errors=True)
                raise BuildError('C build failed:\n' + p.stderr[-4000:])
        shutil.rmtree(dest, ignore_errors=True)
        os.rename(tmp, dest)
        with open(marker, 'w') as f:
            f.write(str(time.time()))
        _prune(keep=dest)
        return dest
    finally:
        fcntl.flock(lock, fcntl.LOCK_UN)
        lock.close()


def _prune(keep, maxkeep=14):
    entries = []
    for name in os.listdir(BUILD_ROOT):
        full = os.path.join(BUILD_ROOT, name)
        if not os.path.isdir(full) or full == keep:
            continue
        if not name.startswith(('plain-', 'asan-')):
            continue
        marker = os.path.join(full, '.complete')
        try:
            entries.append((os.path.getmtime(marker), full))
        except OSError:
            # incomplete leftovers older than 10 minutes
            try:
                if time.time() - os.path.getmtime(full) > 600:
                    shutil.rmtree(full, ignore_errors=True)
            except OSError:
                pass
    entries.sort(reverse=True)
    # a build that was used within the last three hours may still be in use
    # by a long-running check started by another process
    now = time.time()
    for mtime, full in entries[maxkeep:]:
        if now - mtime > 3 * 3600:
            shutil.rmtree(full, ignore_errors=True)


if __name__ == '__main__':
    print(ensure(sys.argv[1] if len(sys.argv) > 1 else 'plain'))
