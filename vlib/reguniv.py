"""Generated universes for the registry checks: a required-side hierarchy
(interfaces, classes with declarations, instances with direct declarations),
a provided-side interface DAG and a DAG of registries, plus the reference
model kept in step.  Blueprints are plain data."""
from hypothesis import strategies as st

from vlib import models
from vlib.core import make_class
from vlib.core import uniq
from vlib.regmodel import RegModel

NAMES = ['', 'a', 'b']
IDX = st.sampled_from([0, 0, 0, 1, 1, 1, 2, 2, 3, 4, 5, 7, 11, 17, 29])


@st.composite
def blueprint(draw, max_regs=3, flavours=('plain', 'verifying'),
              max_ifaces=6, max_classes=3, max_insts=3, max_prov=4):
    nI = draw(st.integers(2, max_ifaces))
    ibases = []
    for i in range(nI):
        k = min(draw(st.sampled_from([0, 1, 1, 1, 2, 2])), i)
        ibases.append(draw(st.lists(st.integers(0, i - 1), min_size=k,
                                    max_size=k, unique=True)) if k else [])
    nC = draw(st.integers(0, max_classes))
    classes = []
    for c in range(nC):
        classes.append({
            'bases': draw(st.lists(st.integers(0, c - 1), max_size=2,
                                   unique=True)) if c else [],
            'implements': draw(st.lists(st.integers(0, nI - 1), max_size=2,
                                        unique=True)),
            'only': draw(st.integers(0, 7)) == 0})
    nO = draw(st.integers(0, max_insts)) if nC else 0
    insts = [{'cls': draw(st.integers(0, nC - 1)),
              'direct': draw(st.lists(st.integers(0, nI - 1), max_size=2,
                                      unique=True))} for _ in range(nO)]
    nP = draw(st.integers(1, max_prov))
    pbases = []
    for i in range(nP):
        k = min(draw(st.sampled_from([0, 1, 1, 2])), i)
        pbases.append(draw(st.lists(st.integers(0, i - 1), min_size=k,
                                    max_size=k, unique=True)) if k else [])
    nR = draw(st.integers(1, max_regs))
    regs = []
    for r in range(nR):
        k = min(draw(st.sampled_from([0, 1, 1, 1, 2])), r)
        regs.append({
            'bases': draw(st.lists(st.integers(0, r - 1), min_size=k,
                                   max_size=k, unique=True)) if k else [],
            'flavour': draw(st.sampled_from(flavours))})
    return {'ibases': ibases, 'classes': classes, 'insts': insts,
            'pbases': pbases, 'regs': regs}


def spec_ref():
    return st.one_of(
        st.tuples(st.just('I'), IDX).map(list),
        st.tuples(st.just('I'), IDX).map(list),
        st.tuples(st.just('C'), IDX).map(list),
        st.tuples(st.just('O'), IDX).map(list))


def reg_key(max_arity=3):
    """required refs of a registration (None allowed)"""
    return st.lists(st.one_of(
        st.tuples(st.just('I'), IDX).map(list),
        st.tuples(st.just('I'), IDX).map(list),
        st.tuples(st.just('C'), IDX).map(list),
        st.just(['N'])), min_size=0, max_size=max_arity)


ARITY_BIASED = st.sampled_from([0, 1, 1, 1, 1, 2, 2, 2, 3])


@st.composite
def reg_key_biased(draw, max_arity=3):
    n = min(draw(ARITY_BIASED), max_arity)
    return [draw(st.one_of(
        st.tuples(st.just('I'), IDX).map(list),
        st.tuples(st.just('I'), IDX).map(list),
        st.tuples(st.just('C'), IDX).map(list),
        st.just(['N']))) for _ in range(n)]


class Val:
    """A registered value; equality by ``key`` so that equal-but-distinct
    values exist."""
    __slots__ = ('label', 'key', '__weakref__')

    def __init__(self, label, key=None):
        self.label = label
        self.key = key if key is not None else ('u', label)

    def __eq__(self, other):
        return isinstance(other, Val) and other.key == self.key

    def __ne__(self, other):
        return not self == other

    def __hash__(self):
        return hash(self.key)

    def __bool__(self):
        # every third numbered value is false (and empty): nothing in the
        # statements lets the truth value of a registered object matter
        # (round-4 seed C09e skipped "empty" leaves)
        return not (isinstance(self.label, int) and self.label % 3 == 0)

    def __len__(self):
        return 1 if self else 0

    def __repr__(self):
        return 'V%s' % (self.label,)


class Universe:

    def __init__(self, bp, consistent_regs=True, reg_classes=None):
        from zope.interface import Interface
        from zope.interface import classImplements
        from zope.interface import classImplementsOnly
        from zope.interface import directlyProvides
        from zope.interface import implementedBy
        from zope.interface import providedBy
        from zope.interface.adapter import AdapterRegistry
        from zope.interface.adapter import VerifyingAdapterRegistry
        from zope.interface.interface import InterfaceClass
        self.bp = bp
        self.Interface = Interface
        self.adjusted = 0
        tag = uniq('u')
        self.ifaces = []
        for i, bs in enumerate(bp['ibases']):
            self.ifaces.append(InterfaceClass(
                '%s_I%d' % (tag, i),
                tuple(self.ifaces[b] for b in bs) or (Interface,), {},
                __module__='verif.univ'))
        self.classes = []
        for c, spec in enumerate(bp['classes']):
            cls, kept = make_class('%s_K%d' % (tag, c),
                                   [self.classes[b] for b in spec['bases']])
            if kept != len(spec['bases']):
                self.adjusted += 1
            impl = [self.ifaces[i] for i in spec['implements']]
            if spec.get('only'):
                classImplementsOnly(cls, *impl)
            elif impl:
                classImplements(cls, *impl)
            self.classes.append(cls)
        self.insts = []
        for spec in bp['insts']:
            ob = self.classes[spec['cls']]()
            if spec['direct']:
                directlyProvides(ob, *[self.ifaces[i]
                                       for i in spec['direct']])
            self.insts.append(ob)
        self.provs = []
        for i, bs in enumerate(bp['pbases']):
            self.provs.append(InterfaceClass(
                '%s_P%d' % (tag, i),
                tuple(self.provs[b] for b in bs) or (Interface,), {},
                __module__='verif.univ'))
        self.model = RegModel(lambda s: s.__sro__,
                              lambda p, q: p.isOrExtends(q), Interface)
        self.regs = []
        self.flavours = []
        for r, spec in enumerate(bp['regs']):
            bases = list(spec['bases'])
            self.model.add_registry(r, bases)
            if consistent_regs and self.model.ro(r) is None:
                bases = bases[:1]
                self.model.set_bases(r, bases)
                self.adjusted += 1
            flavour = spec['flavour']
            if flavour == 'plain' and any(self.flavours[b] != 'plain'
                                          for b in bases):
                # documented: an invalidating registry can only have
                # invalidating registries as bases
                flavour = 'verifying'
                self.adjusted += 1
            cls = AdapterRegistry if flavour == 'plain' \
                else VerifyingAdapterRegistry
            if reg_classes:
                cls = reg_classes[flavour]
            self.regs.append(cls(tuple(self.regs[b] for b in bases)))
            self.flavours.append(flavour)
        self._implementedBy = implementedBy
        self._providedBy = providedBy

    # -- resolving references ---------------------------------------------
    def spec(self, ref):
        """real specification for a reference; falls back to an interface
        when the pool it names is empty (counted)"""
        k = ref[0]
        if k == 'N':
            return None
        if k == 'C' and self.classes:
            return self._implementedBy(self.classes[ref[1] %
                                                    len(self.classes)])
        if k == 'O' and self.insts:
            return self._providedBy(self.insts[ref[1] % len(self.insts)])
        if k in ('C', 'O'):
            self.adjusted += 1
        return self.ifaces[ref[1] % len(self.ifaces)]

    def prov(self, i):
        return self.provs[i % len(self.provs)]

    def all_lookup_specs(self):
        out = list(self.ifaces)
        out += [self._implementedBy(c) for c in self.classes]
        out += [self._providedBy(o) for o in self.insts]
        return out

    def descendants_of(self, key):
        """specs whose resolution order contains ``key`` (None: all)"""
        specs = self.all_lookup_specs()
        if key is None:
            return specs
        return [s for s in specs if s.isOrExtends(key)] or specs

    def prov_ancestors(self, p):
        return [q for q in self.provs if p.isOrExtends(q)]

    def describe(self, spec):
        if spec is None:
            return 'None'
        return getattr(spec, '__name__', repr(spec))
