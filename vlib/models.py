"""Reference models.  None of this imports the code under test.

A *graph* is a list ``bases`` where ``bases[i]`` is the ordered list of the
indices of node i's direct bases.  Graphs are kept acyclic by the generators.
"""


def reach(bases, i, memo=None):
    """Set of nodes reachable from i through bases (including i)."""
    if memo is None:
        memo = {}
    if i in memo:
        return memo[i]
    seen = set()
    stack = [i]
    while stack:
        n = stack.pop()
        if n in seen:
            continue
        seen.add(n)
        stack.extend(bases[n])
    memo[i] = seen
    return seen


def descendants(bases, i):
    """Nodes from which i is reachable (including i)."""
    out = set()
    for j in range(len(bases)):
        if i in reach(bases, j):
            out.add(j)
    return out


class Inconsistent(Exception):
    pass


def c3_merge(seqs):
    """The merge of the Python 2.3 MRO paper."""
    seqs = [list(s) for s in seqs if s]
    res = []
    while True:
        seqs = [s for s in seqs if s]
        if not seqs:
            return res
        cand = None
        for s in seqs:
            c = s[0]
            if not any(c in t[1:] for t in seqs):
                cand = c
                break
        if cand is None:
            raise Inconsistent()
        res.append(cand)
        for s in seqs:
            if s[0] == cand:
                del s[0]


def c3(bases, i, memo=None):
    """Textbook C3 linearization of node i; raises Inconsistent if the
    hierarchy under i has none."""
    if memo is None:
        memo = {}
    if i in memo:
        r = memo[i]
        if r is None:
            raise Inconsistent()
        return r
    try:
        if len(set(bases[i])) != len(bases[i]):
            raise Inconsistent()
        r = [i] + c3_merge([c3(bases, b, memo) for b in bases[i]] +
                           [list(bases[i])])
    except Inconsistent:
        memo[i] = None
        raise
    memo[i] = r
    return r


def cpython_mro(bases, i, root=None, cache=None):
    """Independent oracle: mirror the hierarchy under i into real classes.

    ``root`` (an index or None) is mapped to ``object``; nodes without bases
    become classes whose only base is ``object``.  Returns the list of node
    indices in MRO order (root last if given and reachable or implicit), or
    raises Inconsistent when CPython refuses to build some class of the
    hierarchy.
    """
    if cache is None:
        cache = {}

    def build(n):
        if n in cache:
            c = cache[n]
            if c is None:
                raise Inconsistent()
            return c
        if n == root:
            cache[n] = object
            return object
        try:
            bs = tuple(build(b) for b in bases[n]) or (object,)
            cls = type('M%d' % n, bs, {'_node': n})
        except Inconsistent:
            cache[n] = None
            raise
        except TypeError:
            cache[n] = None
            raise Inconsistent()
        cache[n] = cls
        return cls

    cls = build(i)
    out = []
    for c in cls.__mro__:
        if c is object:
            continue
        out.append(c.__dict__['_node'])
    return out


def valid_linearization(bases, i, order, root=None):
    """Problems (strings) with ``order`` as a resolution order of node i.
    ``root``: index that must come last when given."""
    problems = []
    if not order or order[0] != i:
        problems.append('does not start with the node itself')
    if len(set(order)) != len(order):
        problems.append('duplicates')
    anc = set(reach(bases, i))
    if root is not None:
        anc.add(root)
    if set(order) != anc:
        problems.append('members %s != ancestors %s' % (sorted(set(order)),
                                                         sorted(anc)))
    pos = {n: k for k, n in enumerate(order)}
    for n in order:
        for b in bases[n] if n < len(bases) else ():
            if b in pos and pos[b] < pos[n]:
                problems.append('base %d before derived %d' % (b, n))
    if root is not None and order and order[-1] != root:
        problems.append('root not last')
    return problems
