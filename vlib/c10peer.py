"""Peer process of the C10 differential check: executes programs sent as
JSON lines on stdin under its own implementation and answers with traces."""
import gc
import json
import os
import sys

sys.path.insert(0, os.path.dirname(os.path.dirname(os.path.abspath(__file__))))


def main():
    from vlib import boot
    boot.activate(impl=os.environ['VERIF_IMPL'])
    from vlib import c10prog
    out = sys.stdout
    out.write(json.dumps({'ready': os.environ['VERIF_IMPL']}) + '\n')
    out.flush()
    n = 0
    for line in sys.stdin:
        prog = json.loads(line)
        try:
            trace = c10prog.run_program(prog)
            msg = {'trace': trace}
        except BaseException as e:  # noqa
            import traceback
            msg = {'error': traceback.format_exc()[-2000:]}
        out.write(json.dumps(msg, default=repr) + '\n')
        out.flush()
        n += 1
        if n % 20 == 0:
            gc.collect()


if __name__ == '__main__':
    main()
