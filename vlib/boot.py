"""Make a worker process import zope.interface from the shadow build."""
import os
import sys


def activate(shadow=None, impl=None):
    shadow = shadow or os.environ['VERIF_SHADOW']
    impl = impl or os.environ.get('VERIF_IMPL', 'c')
    assert 'zope.interface' not in sys.modules, 'boot.activate called too late'
    os.environ['PURE_PYTHON'] = '0' if impl == 'c' else '1'
    sys.path.insert(0, shadow)
    import zope  # created by the nspkg .pth file
    old = [p for p in list(zope.__path__)
           if os.path.realpath(p) != os.path.realpath('/repo/src/zope')
           and '/repo/' not in os.path.realpath(p)]
    zope.__path__ = [os.path.join(shadow, 'zope')] + old
    import zope.interface
    f = os.path.realpath(zope.interface.__file__)
    if not f.startswith(os.path.realpath(shadow) + os.sep):
        raise RuntimeError('zope.interface imported from %s, not the shadow'
                           % f)
    from zope.interface import interface as _i
    base = _i.SpecificationBase
    is_c = base.__module__ != 'zope.interface.interface'
    if impl == 'c':
        import zope.interface._zope_interface_coptimizations as cmod
        cf = os.path.realpath(cmod.__file__)
        if not cf.startswith(os.path.realpath(shadow) + os.sep) or not is_c:
            raise RuntimeError('C optimizations not from shadow: %s' % cf)
    elif is_c:
        raise RuntimeError('PURE_PYTHON=1 but C base classes in use')
    return zope.interface
