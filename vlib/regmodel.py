"""Reference model of adapter registries (written from the documentation and
the property statements, not from the lookup code).

Specifications are used as opaque hashable keys.  Two relations are supplied
by the caller:

  sro(spec)        -> sequence of specifications, most specific first
  extends(p, q)    -> does provided interface p equal or extend q

(the checks pass the real ``__sro__`` / ``isOrExtends``, which properties C02
and C03 judge independently; ROOT is the key used for a ``None`` required
specification, i.e. ``Interface``).
"""
from vlib import models


class RegModel:

    def __init__(self, sro, extends, root):
        self.sro = sro
        self.extends = extends
        self.root = root
        self.bases = {}      # rid -> [rid]
        self.ad = {}         # rid -> {(req, prov, name): value}
        self.subs = {}       # rid -> [(req, prov, value, seq)]
        self.seq = 0
        self.order = []      # creation order of rids (indices for C3)

    # -- registries --------------------------------------------------------
    def add_registry(self, rid, bases=()):
        self.bases[rid] = list(bases)
        self.ad[rid] = {}
        self.subs[rid] = []
        self.order.append(rid)

    def set_bases(self, rid, bases):
        self.bases[rid] = list(bases)

    def ro(self, rid, bases=None):
        """C3 order of the registry DAG; None if inconsistent."""
        bases = self.bases if bases is None else bases
        idx = {r: i for i, r in enumerate(self.order)}
        graph = [[idx[b] for b in bases[r]] for r in self.order]
        try:
            lin = models.c3(graph, idx[rid], {})
        except models.Inconsistent:
            return None
        return [self.order[i] for i in lin]

    # -- mutation ----------------------------------------------------------
    def _req(self, required):
        return tuple(self.root if r is None else r for r in required)

    def register(self, rid, required, provided, name, value):
        key = (self._req(required), provided, name)
        if value is None:
            self.ad[rid].pop(key, None)
        else:
            self.ad[rid][key] = value

    def unregister(self, rid, required, provided, name, value=None):
        key = (self._req(required), provided, name)
        old = self.ad[rid].get(key)
        if old is None:
            return
        if value is not None and old is not value:
            return
        del self.ad[rid][key]

    def registered(self, rid, required, provided, name):
        return self.ad[rid].get((self._req(required), provided, name))

    def subscribe(self, rid, required, provided, value):
        self.seq += 1
        self.subs[rid].append((self._req(required), provided, value,
                               self.seq))

    def unsubscribe(self, rid, required, provided, value=None):
        req = self._req(required)
        keep = []
        for e in self.subs[rid]:
            if e[0] == req and e[1] == provided and (
                    value is None or e[2] == value):
                continue
            keep.append(e)
        self.subs[rid] = keep

    def subscribed(self, rid, required, provided, value):
        req = self._req(required)
        return any(e[0] == req and e[1] == provided and e[2] == value
                   for e in self.subs[rid])

    # -- lookup ------------------------------------------------------------
    def _positions(self, reqkey, required):
        """position of each registered key in the looked-up spec's sro, or
        None if not applicable"""
        pos = []
        for k, spec in zip(reqkey, required):
            sro = list(self.sro(spec))
            for i, s in enumerate(sro):
                if s is k or s == k:
                    pos.append(i)
                    break
            else:
                return None
        return tuple(pos)

    def applicable(self, rid, required, provided, name):
        """[(rank, provided, value)] over the chain of rid"""
        required = tuple(required)
        out = []
        chain = self.ro(rid)
        for ri, r in enumerate(chain):
            for (req, prov, nm), value in self.ad[r].items():
                if nm != name or len(req) != len(required):
                    continue
                if not self.extends(prov, provided):
                    continue
                pos = self._positions(req, required)
                if pos is None:
                    continue
                out.append(((ri,) + pos, prov, value))
        return out

    def admissible(self, rid, required, provided, name):
        """values that the statement allows lookup() to return ([] = the
        default)"""
        app = self.applicable(rid, required, provided, name)
        if not app:
            return []
        best = min(a[0] for a in app)
        cands = [a for a in app if a[0] == best]
        # most general provided: drop those that strictly extend another
        # candidate's provided
        keep = []
        for a in cands:
            if any(b is not a and b[1] != a[1] and self.extends(a[1], b[1])
                   and not self.extends(b[1], a[1]) for b in cands):
                continue
            keep.append(a)
        vals = []
        for a in keep:
            if not any(v is a[2] for v in vals):
                vals.append(a[2])
        return vals

    def names(self, rid, required, provided):
        required = tuple(required)
        out = set()
        for r in self.ro(rid):
            for (req, prov, nm), value in self.ad[r].items():
                if len(req) == len(required) and \
                        self.extends(prov, provided) and \
                        self._positions(req, required) is not None:
                    out.add(nm)
        return out

    # -- subscriptions -----------------------------------------------------
    def subscription_entries(self, rid, required, provided):
        """applicable subscriptions with their sort keys:
        [(regrank, pos, provided, seq, value)]; regrank grows towards the
        base registries"""
        required = tuple(required)
        out = []
        for ri, r in enumerate(self.ro(rid)):
            for req, prov, value, seq in self.subs[r]:
                if len(req) != len(required):
                    continue
                if provided is None:
                    if prov is not None:
                        continue
                else:
                    if prov is None or not self.extends(prov, provided):
                        continue
                pos = self._positions(req, required)
                if pos is None:
                    continue
                out.append((ri, pos, prov, seq, value))
        return out

    def check_subscriptions(self, result, rid, required, provided):
        """problems (strings) with ``result`` as the answer of
        subscriptions(required, provided) on registry rid"""
        exp = self.subscription_entries(rid, required, provided)
        problems = []
        # exact multiset by identity
        remaining = list(exp)
        matched = []
        for v in result:
            for k, e in enumerate(remaining):
                if e[4] is v:
                    matched.append(e)
                    del remaining[k]
                    break
            else:
                problems.append('unexpected element %r' % (v,))
        for e in remaining:
            problems.append('missing element %r' % (e[4],))
        if problems:
            return problems
        def sortkey(e):
            return (-e[0], tuple(-p for p in e[1]))
        # One object subscribed several times (under several keys or
        # provided interfaces) can be matched with the expected entries in
        # more than one way: the answer is right if SOME matching puts the
        # keys in order and keeps subscription order within each (key,
        # provided) bucket - the order between different provided
        # interfaces under one key is free.  Decide that exactly (the greedy
        # matching below only words the message).
        buckets = {}
        for e in exp:
            buckets.setdefault((sortkey(e), id(e[2])), []).append(e)
        bkeys = sorted(buckets, key=lambda k: k[0])
        for k in bkeys:
            buckets[k].sort(key=lambda e: e[3])
        seen_states = set()

        def search(i, ptrs, last):
            if i == len(result):
                return True
            state = (i, ptrs, last)
            if state in seen_states:
                return False
            seen_states.add(state)
            for bi, k in enumerate(bkeys):
                p_ = ptrs[bi]
                if p_ < len(buckets[k]) and buckets[k][p_][4] is result[i] \
                        and (last is None or k[0] >= last):
                    if search(i + 1, ptrs[:bi] + (p_ + 1,) + ptrs[bi + 1:],
                              k[0]):
                        return True
            return False

        if search(0, tuple(0 for _ in bkeys), None):
            return []
        groups = {}
        for k, e in enumerate(matched):
            groups.setdefault(id(e[4]), []).append(k)
        for ks in groups.values():
            if len(ks) > 1:
                es = sorted((matched[k] for k in ks),
                            key=lambda e: (sortkey(e), e[3]))
                for k, e in zip(ks, es):
                    matched[k] = e
        for a, b in zip(matched, matched[1:]):
            ka, kb = sortkey(a), sortkey(b)
            if ka > kb:
                problems.append('order: %r (registry rank %d, positions %r) '
                                'before %r (rank %d, positions %r)' % (
                                    a[4], a[0], a[1], b[4], b[0], b[1]))
        for i, a in enumerate(matched):
            for b in matched[i + 1:]:
                if sortkey(a) == sortkey(b) and a[2] == b[2] and a[3] > b[3]:
                    problems.append('subscription order: %r before %r' % (
                        a[4], b[4]))
        return problems
