"""Interpreter for generated API programs (C10).  The same program, run under
the C accelerator and under PURE_PYTHON, must yield the same trace."""
import types
from vlib.callform import Form

IFACE_MODULE = 'verif.c10'
NAMES = ['', 'a', 'b']
BADNAMES = [None, 3, b'', 0, (), b'a', False]


class _Val:
    world = None

    def __init__(self, label, rn=False):
        self.label = label
        self.rn = rn

    def __call__(self, *objs):
        if self.rn:
            return None
        w = self.world
        return ('made', self.label,
                [w.canon(o) if w is not None else '?' for o in objs])

    def __repr__(self):
        return 'V%s' % (self.label,)


class World:

    def __init__(self, prog):
        from zope.interface import Interface
        from zope.interface import classImplements
        from zope.interface import classImplementsOnly
        from zope.interface import directlyProvides
        from zope.interface import interfacemethod
        from zope.interface.adapter import AdapterRegistry
        from zope.interface.adapter import VerifyingAdapterRegistry
        from zope.interface.interface import InterfaceClass
        tag = prog['tag']
        setup = prog['setup']
        self.tag = tag
        self.Interface = Interface
        self.ifaces = []
        self.ibases = []
        for i, spec in enumerate(setup['ifaces']):
            bs = spec['bases']
            kind = spec.get('adapt')
            bases = tuple(self.ifaces[b] for b in bs) or (Interface,)
            name = '%s_I%d' % (tag, i)
            if kind:
                # interface defined with interfacemethods
                ns = {'interfacemethod': interfacemethod, 'BASES': bases,
                      '__name__': IFACE_MODULE}
                body = []
                if kind in ('value', 'none', 'super'):
                    ret = {'value': "('adapted', obj.__class__.__name__)",
                           'none': 'None',
                           'super': 'super(type(self), self).__adapt__(obj)'
                           }[kind]
                    body.append('    @interfacemethod\n'
                                '    def __adapt__(self, obj):\n'
                                '        return %s\n' % ret)
                else:
                    body.append('    @interfacemethod\n'
                                '    def helper(self):\n'
                                '        return 1\n')
                src = 'class %s(*BASES):\n%s' % (name, ''.join(body))
                try:
                    exec(src, ns)
                    iface = ns[name]
                except TypeError:
                    # bases with unrelated custom interface classes:
                    # Python refuses the class statement (metaclass
                    # conflict); use a plain interface instead
                    iface = InterfaceClass(name, bases, {},
                                           __module__=IFACE_MODULE)
            else:
                iface = InterfaceClass(name, bases, {},
                                       __module__=IFACE_MODULE)
            self.ifaces.append(iface)
            self.ibases.append(list(bs))
        self.classes = []
        for c, spec in enumerate(setup['classes']):
            bases = tuple(self.classes[b] for b in spec['bases'])
            body = {'__module__': IFACE_MODULE}
            conform = spec.get('conform')
            if conform == 'value':
                body['__conform__'] = lambda self, i: ('conformed',)
            elif conform == 'none':
                body['__conform__'] = lambda self, i: None
            elif conform == 'raise':
                def _c(self, i):
                    raise ValueError('conform')
                body['__conform__'] = _c
            elif conform == 'attrerror':
                def _c2(self, i):
                    raise AttributeError('inside conform')
                body['__conform__'] = _c2
            try:
                cls = type('%s_K%d' % (tag, c), bases or (object,), body)
            except TypeError:
                cls = type('%s_K%d' % (tag, c), bases[:1], body)
            impl = [self.ifaces[i % len(self.ifaces)]
                    for i in spec['implements']]
            if spec.get('only'):
                classImplementsOnly(cls, *impl)
            elif impl:
                classImplements(cls, *impl)
            self.classes.append(cls)
        self.insts = []
        for spec in setup['insts']:
            ob = self.classes[spec['cls'] % len(self.classes)]()
            if spec['direct']:
                directlyProvides(ob, *[self.ifaces[i % len(self.ifaces)]
                                       for i in spec['direct']])
            self.insts.append(ob)
        self.regs = []
        for r, spec in enumerate(setup['regs']):
            flav = spec['flavour']
            bases = [b for b in spec['bases'] if b < r]
            if flav == 'plain' and any(
                    isinstance(self.regs[b], VerifyingAdapterRegistry)
                    for b in bases):
                flav = 'verifying'
            cls = AdapterRegistry if flav == 'plain' \
                else VerifyingAdapterRegistry
            try:
                self.regs.append(cls(tuple(self.regs[b] for b in bases)))
            except TypeError:
                self.regs.append(cls(tuple(self.regs[b] for b in bases[:1])))
        self.values = {}
        self.odd = {}
        self.labels = {}
        for i, x in enumerate(self.ifaces):
            self.labels[id(x)] = 'I%d' % i
        self.labels[id(Interface)] = 'Interface'
        for c, x in enumerate(self.classes):
            self.labels[id(x)] = 'K%d' % c
        for k, x in enumerate(self.insts):
            self.labels[id(x)] = 'ob%d' % k
        for r, x in enumerate(self.regs):
            self.labels[id(x)] = 'reg%d' % r

    # -- references -------------------------------------------------------
    def reg(self, ref):
        if isinstance(ref, list):      # ['top', r]: top-most base of r
            return self.regs[ref[1] % len(self.regs)].ro[-1]
        return self.regs[ref % len(self.regs)]

    def value(self, label, rn=False):
        key = (label, rn)
        if key not in self.values:
            v = self.values[key] = _Val('%s%s' % (label, 'n' if rn else ''),
                                        rn)
            v.world = self
        return self.values[key]

    def oddobj(self, kind):
        if kind in self.odd:
            return self.odd[kind]
        from zope.interface import implementedBy
        cls0 = self.classes[0]
        if kind == 'int':
            ob = 42
        elif kind == 'str':
            ob = 'text'
        elif kind == 'none':
            ob = None
        elif kind == 'object':
            ob = object()
        elif kind == 'func':
            def ob():
                return None
        elif kind == 'list':
            ob = []
        elif kind == 'builtin_cls':
            ob = dict
        elif kind == 'module':
            ob = types.ModuleType('verif_c10_mod')
        elif kind == 'provides_none':
            ob = cls0()
            ob.__provides__ = None
        elif kind == 'provides_spec':
            ob = cls0()
            ob.__provides__ = implementedBy(self.classes[-1])
        elif kind == 'provides_raises':
            class PR(cls0):
                @property
                def __provides__(self):
                    raise ValueError('provides')
            ob = PR()
        elif kind == 'provides_attrerror':
            class PA(cls0):
                @property
                def __provides__(self):
                    raise AttributeError('provides')
            ob = PA()
        elif kind == 'providedBy_raises':
            class PB(cls0):
                @property
                def __providedBy__(self):
                    raise ValueError('providedBy')
            ob = PB()
        elif kind == 'providedBy_attrerror':
            class PC(cls0):
                @property
                def __providedBy__(self):
                    raise AttributeError('providedBy')
            ob = PC()
        elif kind == 'providedBy_junk':
            class PD(cls0):
                __providedBy__ = 'junk'
            ob = PD()
        elif kind == 'pb_attrerror_provides_raises':
            class PE(cls0):
                @property
                def __providedBy__(self):
                    raise AttributeError('providedBy')

                @property
                def __provides__(self):
                    raise ValueError('provides')
            ob = PE()
        elif kind == 'conform_prop_valueerror':
            class CV(cls0):
                @property
                def __conform__(self):
                    raise ValueError('conform attr')
            ob = CV()
        elif kind == 'conform_prop_attrerror':
            class CA(cls0):
                @property
                def __conform__(self):
                    raise AttributeError('conform attr')
            ob = CA()
        elif kind == 'conform_typeerror':
            class CT(cls0):
                def __conform__(self, iface):
                    raise TypeError('inside conform')
            ob = CT()
        elif kind == 'slots':
            class SL:
                __slots__ = ()
            ob = SL()
        elif kind == 'slots_provides':
            # no instance __dict__, but a slot for the instance declaration
            from zope.interface import classImplements

            class SLP:
                __slots__ = ('__provides__',)
            classImplements(SLP, self.ifaces[0])
            ob = SLP()
        elif kind == 'providedBy_proxy':
            # __providedBy__ yields an object that is not a specification
            # but behaves like one (a security-proxied declaration): both
            # implementations accept anything that has ``extends``
            from zope.interface import providedBy as _pb
            target = _pb(self.insts[1 % len(self.insts)])

            class SpecProxy:
                def __init__(self, spec):
                    self.__dict__['_spec'] = spec

                def __getattr__(self, name):
                    return getattr(self.__dict__['_spec'], name)

                def __call__(self, other):
                    return self.__dict__['_spec'](other)

                def __iter__(self):
                    return iter(self.__dict__['_spec'])
            proxy = SpecProxy(target)

            class PP(cls0):
                @property
                def __providedBy__(self):
                    return proxy
            ob = PP()
        elif kind in ('named_none', 'named_int', 'named_like_I0'):
            # foreign objects that do have __name__ and __module__: the
            # comparison operators of interfaces accept them
            class Named:
                pass
            ob = Named()
            ob.__module__ = IFACE_MODULE
            ob.__name__ = {'named_none': None, 'named_int': 5,
                           'named_like_I0': self.ifaces[0].__name__}[kind]
        elif kind == 'iface_noname':
            # a name with a space and no doc string: __name__ becomes None
            from zope.interface.interface import InterfaceClass
            ob = InterfaceClass('no name', (self.Interface,), {},
                                __module__=IFACE_MODULE)
        else:
            raise AssertionError(kind)
        self.odd[kind] = ob
        try:
            self.labels[id(ob)] = 'odd_' + kind
        except Exception:
            pass
        return ob

    def obj(self, ref):
        k = ref[0]
        if k == 'i':
            return self.ifaces[ref[1] % len(self.ifaces)]
        if k == 'c':
            return self.classes[ref[1] % len(self.classes)]
        if k == 'o':
            return self.insts[ref[1] % len(self.insts)]
        if k == 's':
            ob = self.insts[ref[1] % len(self.insts)]
            mro = type(ob).__mro__[:-1]
            return super(mro[ref[2] % len(mro)], ob)
        if k == 'S':
            # an instance of a user-defined subclass of super: isinstance()
            # in the reference, a type check in the accelerator
            ob = self.insts[ref[1] % len(self.insts)]
            mro = type(ob).__mro__[:-1]
            return _SubSuper(mro[ref[2] % len(mro)], ob)
        if k == 'x':
            return self.oddobj(ref[1])
        if k == 'n':
            return None
        raise AssertionError(ref)

    def spec(self, ref):
        from zope.interface import implementedBy
        from zope.interface import providedBy
        from zope.interface.declarations import _empty
        k = ref[0]
        if k == 'I':
            return self.ifaces[ref[1] % len(self.ifaces)]
        if k == 'R':
            return self.Interface
        if k == 'C':
            return implementedBy(self.classes[ref[1] % len(self.classes)])
        if k == 'O':
            return providedBy(self.insts[ref[1] % len(self.insts)])
        if k == 'S':
            return providedBy(self.obj(['s', ref[1], ref[2]]))
        if k == 'N':
            return None
        if k == 'E':
            return _empty
        raise AssertionError(ref)

    # -- canonical values -------------------------------------------------
    def canon(self, v, depth=0):
        from zope.interface.interface import InterfaceClass
        from zope.interface.interface import Specification
        if v is None or isinstance(v, (bool, int, str, bytes)):
            return v
        if isinstance(v, _Val):
            return repr(v)
        if id(v) in self.labels:
            return self.labels[id(v)]
        if isinstance(v, InterfaceClass):
            return 'iface:' + v.__name__
        if isinstance(v, Specification):
            return ['spec', type(v).__name__,
                    [self.canon(x) for x in v.__iro__]]
        if isinstance(v, (tuple, list)) and depth < 4:
            return [self.canon(x, depth + 1) for x in v]
        if isinstance(v, dict) and depth < 4:
            return sorted([self.canon(k, depth + 1), self.canon(x, depth + 1)]
                          for k, x in v.items())
        if isinstance(v, super):
            return 'super'
        return '<%s>' % type(v).__name__


class _SubSuper(super):
    pass


def run_program(prog):
    """-> trace (list with one canonical entry per op, plus tags)"""
    import operator

    from zope.interface import alsoProvides
    from zope.interface import classImplements
    from zope.interface import classImplementsFirst
    from zope.interface import classImplementsOnly
    from zope.interface import directlyProvidedBy
    from zope.interface import directlyProvides
    from zope.interface import implementedBy
    from zope.interface import interface as zinterface
    from zope.interface import noLongerProvides
    from zope.interface import providedBy
    from zope.interface.declarations import Declaration
    W = World(prog)
    trace = []
    D = 'DEFAULT'
    saved_hooks = list(zinterface.adapter_hooks)
    cmpops = {'<': operator.lt, '<=': operator.le, '>': operator.gt,
              '>=': operator.ge, '==': operator.eq, '!=': operator.ne}

    def ifs(idxs):
        return [W.ifaces[i % len(W.ifaces)] for i in idxs]

    def do(op):
        k = op[0]
        if k == 'providedBy':
            return providedBy(W.obj(op[1]))
        if k == 'implementedBy':
            return implementedBy(W.obj(op[1]))
        if k == 'directlyProvidedBy':
            return list(directlyProvidedBy(W.obj(op[1])))
        if k == 'iface_providedBy':
            return W.spec(op[1]).providedBy(W.obj(op[2]))
        if k == 'iface_implementedBy':
            return W.spec(op[1]).implementedBy(W.obj(op[2]))
        if k == 'isOrExtends':
            return W.spec(op[1]).isOrExtends(W.spec(op[2]))
        if k == 'extends':
            return W.spec(op[1]).extends(W.spec(op[2]), op[3])
        if k == 'spec_call':
            s = W.spec(op[1])
            if s in W.ifaces or s is W.Interface:
                return s.isOrExtends(W.spec(op[2]))
            return s(W.spec(op[2]))
        if k == 'sro':
            return list(W.spec(op[1]).__sro__)
        if k == 'iter':
            return list(W.spec(op[1]))
        if k == 'contains':
            return W.spec(op[2]) in W.spec(op[1])
        if k == 'add':
            return list(W.spec(op[1]) + W.spec(op[2]))
        if k == 'sub':
            return list(W.spec(op[1]) - W.spec(op[2]))
        if k == 'cmp':
            a = W.spec(op[2]) if op[2][0].isupper() else W.obj(op[2])
            b = W.spec(op[3]) if op[3][0].isupper() else W.obj(op[3])
            return cmpops[op[1]](a, b)
        if k == 'hash_eq':
            a, b = W.spec(op[1]), W.spec(op[2])
            return [hash(a) == hash(b), a == b]
        if k == 'sorted':
            return sorted([W.spec(r) for r in op[1]])
        if k == 'classImplements':
            return classImplements(W.obj(op[1]), *ifs(op[2]))
        if k == 'classImplementsOnly':
            return classImplementsOnly(W.obj(op[1]), *ifs(op[2]))
        if k == 'classImplementsFirst':
            return classImplementsFirst(W.obj(op[1]), ifs(op[2])[0])
        if k == 'directlyProvides':
            return directlyProvides(W.obj(op[1]), *ifs(op[2]))
        if k == 'alsoProvides':
            return alsoProvides(W.obj(op[1]), *ifs(op[2]))
        if k == 'noLongerProvides':
            return noLongerProvides(W.obj(op[1]), ifs(op[2])[0])
        if k == 'declaration':
            return list(Declaration(*[W.spec(r) for r in op[1]]).flattened())
        if k == 'rebase':
            i = op[1] % len(W.ifaces)
            from vlib import models
            desc = models.descendants(W.ibases, i)
            cands = [j for j in range(len(W.ifaces)) if j not in desc]
            nb = []
            for x in op[2]:
                if cands:
                    c = cands[x % len(cands)]
                    if c not in nb:
                        nb.append(c)
            W.ibases[i] = nb
            W.ifaces[i].__bases__ = tuple(W.ifaces[j] for j in nb) or \
                (W.Interface,)
            return list(W.ifaces[i].__sro__)
        if k == 'rename':
            # __name__ is an ordinary attribute; what both implementations
            # do with an interface that was renamed after it was hashed is
            # not specified, but it has to be the same thing (seed C10g)
            iface = W.ifaces[op[1] % len(W.ifaces)]
            iface.__name__ = iface.__name__ + 'r'
            return iface.__name__[-3:]
        if k == 'adapt':
            iface = W.ifaces[op[1] % len(W.ifaces)]
            if op[3] == 'absent':
                return iface(W.obj(op[2]))
            return iface(W.obj(op[2]), D if op[3] == 'value' else None)
        if k == 'adapt_direct':
            return W.ifaces[op[1] % len(W.ifaces)].__adapt__(W.obj(op[2]))
        if k == 'hook':
            hooks = []
            for h in op[1]:
                if isinstance(h, int):
                    hooks.append(W.regs[h % len(W.regs)].adapter_hook)
                elif h == 'none':
                    hooks.append(lambda i, o: None)
                elif h == 'raise':
                    def _raise(i, o):
                        raise KeyError('hook')
                    hooks.append(_raise)
                else:
                    hooks.append(lambda i, o, h=h: ('hooked', h))
            zinterface.adapter_hooks[:] = hooks
            return len(zinterface.adapter_hooks)
        if k == 'getObjectSpecification':
            from zope.interface.declarations import getObjectSpecification
            return getObjectSpecification(W.obj(op[1]))
        # registries
        if k in ('register', 'unregister', 'subscribe', 'unsubscribe',
                 'registered', 'subscribed'):
            reg = W.reg(op[1])
            req = [W.spec(r) for r in op[2]]
            prov = W.spec(op[3])
            if k == 'register':
                nm = op[4] if isinstance(op[4], str) else BADNAMES[op[4][1]]
                return reg.register(req, prov, nm, W.value(op[5], op[6]))
            if k == 'unregister':
                if op[5] is None:
                    return reg.unregister(req, prov, op[4])
                return reg.unregister(req, prov, op[4], W.value(op[5]))
            if k == 'registered':
                return reg.registered(req, prov, op[4])
            if k == 'subscribe':
                return reg.subscribe(req, prov, W.value(op[4], op[5]))
            if k == 'unsubscribe':
                if op[4] is None:
                    return reg.unsubscribe(req, prov)
                return reg.unsubscribe(req, prov, W.value(op[4]))
            return reg.subscribed(req, prov, W.value(op[4]))
        if k == 'rebuild':
            return W.regs[op[1] % len(W.regs)].rebuild()
        if k == 'allRegistrations':
            reg = W.regs[op[1] % len(W.regs)]
            return [sorted(map(repr, map(W.canon, reg.allRegistrations()))),
                    sorted(map(repr, map(W.canon, reg.allSubscriptions())))]
        if k == 'regbases':
            r = op[1] % len(W.regs)
            nb = []

            def reaches(a, target, seen=None):
                # over the CURRENT __bases__ (a verifying registry's ``ro``
                # is refreshed lazily and must not be used to exclude
                # cycles)
                seen = seen if seen is not None else set()
                if a is target:
                    return True
                if id(a) in seen:
                    return False
                seen.add(id(a))
                return any(reaches(x, target, seen) for x in a.__bases__)
            for x in op[2]:
                b = x % len(W.regs)
                if b != r and b not in nb and \
                        not reaches(W.regs[b], W.regs[r]):
                    nb.append(b)
            W.regs[r].__bases__ = tuple(W.regs[b] for b in nb)
            return [W.canon(x) for x in W.regs[r].ro]
        if k in ('lookup', 'lookup1', 'lookupAll', 'names', 'subscriptions'):
            reg = W.regs[op[1] % len(W.regs)]
            if len(op) > 6:
                reg = Form(reg, op[6])
            specs = [W.spec(r) for r in op[2]]
            prov = W.spec(op[3])
            nm = op[4] if isinstance(op[4], str) else BADNAMES[op[4][1]]
            if k == 'lookup':
                if op[5]:
                    return reg.lookup(specs, prov, nm, D)
                return reg.lookup(specs, prov, nm)
            if k == 'lookup1':
                s0 = specs[0] if specs else W.Interface
                if op[5]:
                    return reg.lookup1(s0, prov, nm, D)
                return reg.lookup1(s0, prov, nm)
            if k == 'lookupAll':
                return sorted(map(repr, map(W.canon,
                                            reg.lookupAll(specs, prov))))
            if k == 'names':
                return sorted(reg.names(specs, prov))
            return list(reg.subscriptions(specs, prov))
        if k in ('queryAdapter', 'adapter_hook', 'queryMultiAdapter',
                 'subscribers'):
            reg = W.regs[op[1] % len(W.regs)]
            if len(op) > 6:
                reg = Form(reg, op[6])
            objs = [W.obj(r) for r in op[2]]
            prov = W.spec(op[3])
            nm = op[4] if isinstance(op[4], str) else BADNAMES[op[4][1]]
            if k == 'queryAdapter':
                o = objs[0] if objs else W.insts[0]
                return reg.queryAdapter(o, prov, nm, D) if op[5] else \
                    reg.queryAdapter(o, prov, nm)
            if k == 'adapter_hook':
                o = objs[0] if objs else W.insts[0]
                return reg.adapter_hook(prov, o, nm, D) if op[5] else \
                    reg.adapter_hook(prov, o, nm)
            if k == 'queryMultiAdapter':
                return reg.queryMultiAdapter(objs, prov, nm, D) if op[5] \
                    else reg.queryMultiAdapter(objs, prov, nm)
            return list(reg.subscribers(objs, prov))
        raise AssertionError(op)

    try:
        for op in prog['ops']:
            try:
                r = do(op)
                entry = ['ok', W.canon(r)]
            except RecursionError:
                entry = ['exc', 'RecursionError']
            except Exception as e:  # noqa
                entry = ['exc', type(e).__name__]
            trace.append(entry)
    finally:
        zinterface.adapter_hooks[:] = saved_hooks
    return trace
