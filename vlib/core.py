"""Worker-side machinery shared by every check: outcome recording, known
findings, replay files, the Hypothesis driver loop and enumeration loop."""
import gc
import hashlib
import itertools
import json
import os
import sys
import time
import traceback

VERIF = os.path.dirname(os.path.dirname(os.path.abspath(__file__)))

_counter = itertools.count(1)


def uniq(prefix='N'):
    """Process-unique name (interfaces compare and hash by name+module)."""
    return '%s%d' % (prefix, next(_counter))


def canon(case):
    return json.dumps(case, sort_keys=True, separators=(',', ':'),
                      default=repr)


def case_hash(case):
    return hashlib.sha1(canon(case).encode()).hexdigest()[:16]


class Out:
    """What one executed case reports."""

    __slots__ = ('fails', 'nontrivial', 'tags', 'adjusted', 'checks')

    def __init__(self):
        self.fails = []       # (sig, message)
        self.nontrivial = False
        self.tags = []
        self.adjusted = 0
        self.checks = 0       # individual oracle comparisons made

    def fail(self, sig, msg):
        self.fails.append((sig, str(msg)[:2000]))

    def tag(self, *tags):
        self.tags.extend(tags)


def load_known(prop):
    """Signatures listed as known findings for ``prop`` (never written at
    run time)."""
    known = {}
    path = os.path.join(VERIF, 'KNOWN_FINDINGS.txt')
    if not os.path.exists(path):
        return known
    for line in open(path):
        line = line.strip()
        if not line.startswith('known:'):
            continue
        parts = line.split(None, 3)
        if len(parts) < 3:
            continue
        if parts[1] != 'property=%s' % prop or not parts[2].startswith('sig='):
            continue
        known[parts[2][4:]] = parts[3] if len(parts) > 3 else ''
    return known


def _zope_frames(tb, shadow):
    frames = traceback.extract_tb(tb)
    inner = None
    for fr in frames:
        fn = fr.filename
        if '/zope/interface/' in fn and '/tests/' not in fn:
            inner = '%s:%s' % (os.path.basename(fn), fr.name)
    return inner


class Violation(Exception):
    pass


class Recorder:

    def __init__(self, prop, cfg, mod):
        self.prop = prop
        self.cfg = cfg
        self.mod = mod
        self.known = load_known(prop)
        self.evaluations = 0
        self.nontrivial_hashes = set()
        self.classes = {}
        self.samples = []
        self.adjusted = 0
        self.oracle_checks = 0
        self.known_hits = {}
        self.known_examples = {}
        self.reported_sigs = set()   # sigs already turned into a replay
        self.violations = []         # dicts
        self.harness_errors = []
        self.failing_hashes = set()
        self.last_failing = None
        self.fail_calls = 0
        self.shrink_budget = int(cfg.get('shrink_calls', 400))
        self.t0 = time.time()
        self.budget_s = float(cfg.get('budget_s', 1e9))
        self.out_of_time = False
        self.gc_every = int(getattr(mod, 'GC_EVERY', 25))
        self.journal = cfg.get('_journal') if cfg.get('journal') else None

    # -- executing one case ------------------------------------------------
    def execute(self, case):
        out = Out()
        if self.journal:
            # last case started, for the driver to pick up if the
            # interpreter dies inside the code under test
            with open(self.journal, 'w') as f:
                json.dump(case, f)
        try:
            self.mod.run_case(case, self.cfg, out)
        except Violation:
            raise
        except BaseException as e:  # noqa
            if isinstance(e, (KeyboardInterrupt, SystemExit)):
                raise
            where = _zope_frames(e.__traceback__, None)
            tbtxt = ''.join(traceback.format_exception(type(e), e,
                                                       e.__traceback__))
            if where is None:
                self.harness_errors.append(tbtxt[-3000:])
                raise
            out.fail('exception:%s@%s' % (type(e).__name__, where),
                     tbtxt[-1500:])
        return out

    def account(self, case, out, h=None):
        self.evaluations += 1
        self.adjusted += out.adjusted
        self.oracle_checks += out.checks
        for t in out.tags:
            self.classes[t] = self.classes.get(t, 0) + 1
        if out.nontrivial:
            h = h or case_hash(case)
            if h not in self.nontrivial_hashes:
                self.nontrivial_hashes.add(h)
                if len(self.samples) < 3:
                    self.samples.append(case)
        if self.evaluations % self.gc_every == 0:
            gc.collect()
        if time.time() - self.t0 > self.budget_s:
            self.out_of_time = True

    def new_fails(self, out):
        new = []
        for sig, msg in out.fails:
            if sig in self.known:
                self.known_hits[sig] = self.known_hits.get(sig, 0) + 1
                continue
            if sig in self.reported_sigs:
                continue
            new.append((sig, msg))
        return new

    def write_replay(self, case, fails, final=True):
        sig, msg = fails[0]
        d = os.path.join(os.environ.get('VERIF_REPLAY_DIR') or
                         os.path.join(VERIF, 'replays'), self.prop)
        os.makedirs(d, exist_ok=True)
        name = '%s-%s-%s.json' % (
            self.cfg.get('name', 'cfg'),
            hashlib.sha1(sig.encode()).hexdigest()[:8],
            self.cfg.get('seed', 0))
        path = os.path.join(d, name)
        rec = {
            'property': self.prop,
            'config': {k: v for k, v in self.cfg.items()},
            'case': case,
            'signature': sig,
            'observed': msg,
            'all_failures': [list(f) for f in fails[:10]],
        }
        tmp = path + '.tmp'
        with open(tmp, 'w') as f:
            json.dump(rec, f, indent=1, sort_keys=True, default=repr)
        os.replace(tmp, path)
        return path

    # -- enumeration -------------------------------------------------------
    def run_cases(self, cases, regression=False):
        for case in cases:
            if self.out_of_time and not regression:
                break
            out = self.execute(case)
            self.account(case, out)
            new = self.new_fails(out)
            if new:
                path = self.write_replay(case, new)
                for sig, _ in new:
                    self.reported_sigs.add(sig)
                self.violations.append(
                    {'sig': new[0][0], 'msg': new[0][1], 'replay': path,
                     'regression': regression})
                if len(self.violations) >= 5:
                    break

    # -- hypothesis --------------------------------------------------------
    def run_hypothesis(self, strategy, n, seed):
        import hypothesis
        from hypothesis import HealthCheck, Phase, given, settings

        rounds = 0
        while rounds < 3 and not self.out_of_time:
            rounds += 1
            self.failing_hashes = set()
            self.last_failing = None
            self.fail_calls = 0
            rec = self

            @hypothesis.seed(seed + 7919 * (rounds - 1))
            @settings(max_examples=n, database=None, deadline=None,
                      derandomize=False, report_multiple_bugs=False,
                      suppress_health_check=list(HealthCheck),
                      phases=(Phase.generate, Phase.shrink),
                      verbosity=hypothesis.Verbosity.quiet)
            @given(strategy)
            def test(case):
                if rec.out_of_time and rec.last_failing is None:
                    return
                h = case_hash(case)
                if rec.last_failing is not None:
                    rec.fail_calls += 1
                    if rec.fail_calls > rec.shrink_budget:
                        # shrink budget used up: only examples that are
                        # known to fail keep failing (never flaky), nothing
                        # new is executed.
                        if h in rec.failing_hashes:
                            raise Violation('known failing example')
                        return
                out = rec.execute(case)
                if rec.last_failing is None:
                    rec.account(case, out, h)
                new = rec.new_fails(out)
                if new:
                    rec.failing_hashes.add(h)
                    rec.last_failing = (case, new)
                    rec.write_replay(case, new, final=False)
                    raise Violation(new[0][0])

            try:
                test()
            except Violation:
                case, new = self.last_failing
                path = self.write_replay(case, new)
                for sig, _ in new[:1]:
                    self.reported_sigs.add(sig)
                self.violations.append(
                    {'sig': new[0][0], 'msg': new[0][1], 'replay': path,
                     'regression': False})
                continue
            except BaseException as e:  # hypothesis wraps nothing else
                if self.last_failing is not None:
                    case, new = self.last_failing
                    path = self.write_replay(case, new)
                    self.reported_sigs.add(new[0][0])
                    self.violations.append(
                        {'sig': new[0][0], 'msg': new[0][1], 'replay': path,
                         'regression': False})
                    continue
                raise
            break

    # -- coverage-guided: atheris drives Hypothesis's byte stream --------
    def run_atheris(self, strategy, runs, seed, finish, corpus_dir):
        """libFuzzer mutates the byte string from which Hypothesis builds
        the case (``fuzz_one_input``), guided by coverage of the Python code
        of zope.interface.  Failures are collected by signature (the fuzzer
        is not stopped), the first case of each signature is the replay; no
        shrinking.  ``finish`` writes the summary and ends the process
        (atheris.Fuzz() does not return)."""
        import random

        import atheris
        from hypothesis import HealthCheck, given, settings
        rec = self

        @settings(database=None, deadline=None,
                  suppress_health_check=list(HealthCheck))
        @given(strategy)
        def test(case):
            out = rec.execute(case)
            rec.account(case, out)
            new = rec.new_fails(out)
            if new:
                path = rec.write_replay(case, new)
                for sig, _ in new:
                    rec.reported_sigs.add(sig)
                rec.violations.append(
                    {'sig': new[0][0], 'msg': new[0][1], 'replay': path,
                     'regression': False})

        fuzz = test.hypothesis.fuzz_one_input
        # starting corpus: byte strings Hypothesis accepts, found by
        # feeding it pseudo-random buffers (an empty corpus mostly yields
        # buffers that are too short to build a case from)
        os.makedirs(corpus_dir, exist_ok=True)
        rng = random.Random(seed)
        made = 0
        for _ in range(400):
            if made >= 40:
                break
            buf = bytes(rng.getrandbits(8) if rng.random() < 0.5 else 0
                        for _ in range(rng.choice([256, 1024, 4096])))
            try:
                canon_ = fuzz(buf)
            except Exception:  # noqa
                canon_ = None
            if canon_:
                with open(os.path.join(corpus_dir, 'seed%03d' % made),
                          'wb') as f:
                    f.write(canon_)
                made += 1
        self.classes['atheris_corpus_seeds'] = made
        start = self.evaluations

        def one(data):
            try:
                fuzz(data)
            except BaseException:  # noqa
                rec.harness_errors.append(traceback.format_exc()[-3000:])
                finish()
            if rec.evaluations - start >= runs or rec.out_of_time or \
                    len(rec.violations) >= 5:
                finish()

        atheris.Setup([sys.argv[0], '-runs=%d' % (runs * 50),
                       '-seed=%d' % (seed % (2 ** 31) or 1),
                       '-max_len=8192', '-verbosity=0', '-print_final_stats=0',
                       corpus_dir], one)
        atheris.Fuzz()
        finish()

    def summary(self):
        return {
            'config': self.cfg,
            'evaluations': self.evaluations,
            'nontrivial_hashes': sorted(self.nontrivial_hashes),
            'classes': self.classes,
            'samples': self.samples,
            'adjusted': self.adjusted,
            'oracle_checks': self.oracle_checks,
            'known_hits': self.known_hits,
            'violations': self.violations,
            'harness_errors': self.harness_errors,
            'out_of_time': self.out_of_time,
            'wall_s': round(time.time() - self.t0, 2),
        }


def regression_cases(prop):
    d = os.path.join(VERIF, 'regress', prop)
    out = []
    if os.path.isdir(d):
        for fn in sorted(os.listdir(d)):
            if fn.endswith('.json'):
                with open(os.path.join(d, fn)) as f:
                    out.append((fn, json.load(f)))
    return out


def make_class(name, base_classes, body=None, meta=None):
    """type(name, bases, body); base lists that CPython rejects are truncated
    deterministically to the first base (construction, not rejection).
    Returns (class, number of bases kept).  ``meta``: metaclass to use."""
    base_classes = tuple(base_classes)
    mk = meta or type
    try:
        return mk(name, base_classes or (object,), dict(body or {})), \
            len(base_classes)
    except TypeError:
        return mk(name, base_classes[:1], dict(body or {})), 1
